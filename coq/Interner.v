(* Interner.v — C10: interning is a stable bijection between strings and keys.
   The table model (append-only, duplicate-free list; key = insertion index) is the abstraction of
   indexmap's IndexSet (built-in interner) and of lasso's Rodeo / ThreadedRodeo (used sequentially
   or linearised); TokenKey arithmetic and the lasso key conversions are transcribed from
   interning.rs and interning/lasso_compat/traits.rs. *)
From CsModel Require Import Builder BuilderProofs.
From Coq Require Import ZifyN ZifyNat ZifyBool.

Definition two32 : N := 4294967296.

(* ---------------------------------------------------------------------------------------- *)
(* TokenKey: a NonZeroU32 [inner]; raw form = inner - 1 (interning.rs) *)
Definition tk_valid (inner : N) : Prop := 1 <= inner < two32.
Definition into_u32 (inner : N) : N := inner - 1.
Definition try_from_u32 (raw : N) : option N := if raw <? two32 - 1 then Some (raw + 1) else None.

(* lasso key types: try_from_usize succeeds strictly below the type's MAX (lasso keys.rs) *)
Inductive lasso_key := Spur | MiniSpur | MicroSpur | LargeSpur | TokenKeyAsLasso.
Definition lasso_cap (k : lasso_key) : N :=
  match k with
  | Spur => two32 - 1
  | MiniSpur => 65535
  | MicroSpur => 255
  | LargeSpur => 18446744073709551615
  | TokenKeyAsLasso => two32 - 1
  end.
Definition lasso_try_from_usize (k : lasso_key) (i : N) : option N := if i <? lasso_cap k then Some i else None.

(* compat layer: TokenKey -> lasso key (try_resolve) and lasso key -> TokenKey (try_get_or_intern) *)
Definition to_lasso (k : lasso_key) (inner : N) : option N := lasso_try_from_usize k (into_u32 inner).
Definition from_lasso (i : N) : option N := if i <? two32 then try_from_u32 i else None.

(* interner with a capacity (number of keys the key type can represent) *)
Definition intern_c (cap : N) (strs : list text) (t : text) : option (N * list text) :=
  match find_index (text_eqb t) strs with
  | Some i => Some (N.of_nat i, strs)
  | None => if N.of_nat (length strs) <? cap then Some (N.of_nat (length strs), strs ++ [t]) else None
  end.

(* a run of interning requests from a table; failed requests (capacity) are reported as None *)
Fixpoint intern_all (cap : N) (strs : list text) (ts : list text) : list (option N) * list text :=
  match ts with
  | [] => ([], strs)
  | t :: r =>
      match intern_c cap strs t with
      | Some (k, strs') => let (ks, sf) := intern_all cap strs' r in (Some k :: ks, sf)
      | None => let (ks, sf) := intern_all cap strs r in (None :: ks, sf)
      end
  end.

(* ---------------------------------------------------------------------------------------- *)
Lemma text_eqb_neq a b : text_eqb a b = false <-> a <> b.
Proof.
  split.
  - intros E Eq. apply (proj2 (text_eqb_eq a b)) in Eq. congruence.
  - intros NE. destruct (text_eqb a b) eqn:E; [|reflexivity]. apply text_eqb_eq in E. contradiction.
Qed.

Lemma find_index_first {A} (p : A -> bool) l i :
  find_index p l = Some i -> forall j x, (j < i)%nat -> nth_error l j = Some x -> p x = false.
Proof.
  revert i; induction l as [|a r IH]; cbn; intros i; [discriminate|].
  destruct (p a) eqn:E.
  - intros [= <-] j x L. lia.
  - destruct (find_index p r) as [i'|]; cbn; [|discriminate]. intros [= <-] [|j] x L; cbn.
    + intros [= <-]. exact E.
    + intros Hx. apply (IH i' eq_refl j x); [lia|exact Hx].
Qed.

Lemma NoDup_nth_error_inj {A} (l : list A) i j x :
  NoDup l -> nth_error l i = Some x -> nth_error l j = Some x -> i = j.
Proof.
  intros ND Ei Ej. rewrite NoDup_nth_error in ND. apply ND; [|congruence].
  apply nth_error_Some. congruence.
Qed.

Lemma NoDup_snoc {A} (l : list A) x : NoDup l -> ~ In x l -> NoDup (l ++ [x]).
Proof.
  induction l as [|a r IH]; cbn; intros ND NI; [constructor; [tauto|constructor]|].
  inversion ND as [|? ? Na Nr]; subst. constructor.
  - rewrite in_app_iff. cbn. intros [Hin|[->|[]]]; [contradiction|]. apply NI. left; reflexivity.
  - apply IH; [exact Nr|]. intros Hin. apply NI. right; exact Hin.
Qed.

Lemma intern_c_spec cap strs t k strs' :
  NoDup strs -> intern_c cap strs t = Some (k, strs') ->
  NoDup strs' /\ (exists ext, strs' = strs ++ ext) /\ resolve strs' k = Some t /\ k < cap \/ 
  NoDup strs' /\ (exists ext, strs' = strs ++ ext) /\ resolve strs' k = Some t /\ In t strs.
Proof.
  intros ND. unfold intern_c. destruct (find_index (text_eqb t) strs) as [i|] eqn:F.
  - intros [= <- <-]. right. split; [exact ND|]. split; [exists []; rewrite app_nil_r; reflexivity|].
    destruct (find_index_some _ _ _ F) as (x & Hx & Px). apply text_eqb_eq in Px. subst x.
    split; [rewrite resolve_eq; rewrite Nat2N.id; exact Hx|]. eapply nth_error_In; eauto.
  - destruct (N.ltb_spec (N.of_nat (length strs)) cap) as [L|_]; [|discriminate].
    intros [= <- <-]. left. split.
    + apply NoDup_snoc; [exact ND|].
      intros Hin. pose proof (find_index_none _ _ F t Hin) as E.
      rewrite text_eqb_refl in E. discriminate.
    + split; [exists [t]; reflexivity|]. split; [|exact L].
      rewrite resolve_eq. rewrite Nat2N.id, nth_error_app2, Nat.sub_diag; [reflexivity|lia].
Qed.

Lemma intern_c_good cap strs t k strs' :
  NoDup strs -> intern_c cap strs t = Some (k, strs') ->
  NoDup strs' /\ (exists ext, strs' = strs ++ ext) /\ resolve strs' k = Some t.
Proof. intros ND E. destruct (intern_c_spec _ _ _ _ _ ND E) as [(A&B&C&_)|(A&B&C&_)]; auto. Qed.

(* resolve . intern = id *)
Theorem resolve_intern cap strs t k strs' :
  NoDup strs -> intern_c cap strs t = Some (k, strs') -> resolve strs' k = Some t.
Proof. intros ND E. apply (intern_c_good _ _ _ _ _ ND E). Qed.

(* a key keeps resolving to its string whatever is interned later *)
Theorem resolve_stable cap ts : forall strs k t,
  resolve strs k = Some t -> resolve (snd (intern_all cap strs ts)) k = Some t.
Proof.
  induction ts as [|x r IH]; intros strs k t R; cbn [intern_all]; [exact R|].
  destruct (intern_c cap strs x) as [[k' strs']|] eqn:E.
  - assert (R' : resolve strs' k = Some t).
    { unfold intern_c in E. destruct (find_index _ strs); [injection E as _ <-; exact R|].
      destruct (_ <? cap); [|discriminate]. injection E as _ <-. apply resolve_ext. exact R. }
    specialize (IH strs' k t R'). destruct (intern_all cap strs' r). exact IH.
  - specialize (IH strs k t R). destruct (intern_all cap strs r). exact IH.
Qed.

Lemma intern_all_NoDup cap ts : forall strs, NoDup strs -> NoDup (snd (intern_all cap strs ts)).
Proof.
  induction ts as [|x r IH]; intros strs ND; cbn [intern_all]; [exact ND|].
  destruct (intern_c cap strs x) as [[k' strs']|] eqn:E.
  - destruct (intern_c_good _ _ _ _ _ ND E) as (ND' & _). specialize (IH strs' ND').
    destruct (intern_all cap strs' r). exact IH.
  - specialize (IH strs ND). destruct (intern_all cap strs r). exact IH.
Qed.

(* every key handed out by a run resolves, in the final table, to the string it was handed out for *)
Theorem run_resolves cap ts : forall strs i k t,
  NoDup strs ->
  nth_error (fst (intern_all cap strs ts)) i = Some (Some k) -> nth_error ts i = Some t ->
  resolve (snd (intern_all cap strs ts)) k = Some t.
Proof.
  induction ts as [|x r IH]; intros strs i k t ND; cbn [intern_all]; [destruct i; discriminate|].
  destruct (intern_c cap strs x) as [[k' strs']|] eqn:E.
  - destruct (intern_c_good _ _ _ _ _ ND E) as (ND' & _ & R).
    pose proof (resolve_stable cap r strs' k' x R) as St.
    specialize (IH strs'). destruct (intern_all cap strs' r) as [ks sf] eqn:EA. cbn [fst snd] in *.
    destruct i as [|i]; cbn [nth_error].
    + intros [= <-] [= <-]. exact St.
    + intros A B. eapply IH; eauto.
  - specialize (IH strs). destruct (intern_all cap strs r) as [ks sf] eqn:EA. cbn [fst snd] in *.
    destruct i as [|i]; cbn [nth_error]; [discriminate|]. intros A B. eapply IH; eauto.
Qed.

(* two requests of one run get the same key exactly when the strings are equal *)
Theorem run_injective cap ts strs i j k1 k2 t1 t2 :
  NoDup strs ->
  nth_error (fst (intern_all cap strs ts)) i = Some (Some k1) -> nth_error ts i = Some t1 ->
  nth_error (fst (intern_all cap strs ts)) j = Some (Some k2) -> nth_error ts j = Some t2 ->
  (k1 = k2 <-> t1 = t2).
Proof.
  intros ND A1 B1 A2 B2.
  pose proof (run_resolves cap ts strs i k1 t1 ND A1 B1) as R1.
  pose proof (run_resolves cap ts strs j k2 t2 ND A2 B2) as R2.
  pose proof (intern_all_NoDup cap ts strs ND) as NDf.
  split.
  - intros <-. congruence.
  - intros <-. rewrite resolve_eq in R1, R2.
    pose proof (NoDup_nth_error_inj _ _ _ _ NDf R1 R2) as E. apply N2Nat.inj. exact E.
Qed.

(* ---- raw key conversions: lossless over the whole key space, invalid raw values rejected ---- *)
Theorem key_roundtrip_raw raw inner :
  raw < two32 -> try_from_u32 raw = Some inner -> into_u32 inner = raw /\ tk_valid inner.
Proof.
  unfold try_from_u32, into_u32, tk_valid, two32. intros L.
  destruct (N.ltb_spec raw (4294967296 - 1)); [|discriminate]. intros [= <-]. lia.
Qed.

Theorem key_roundtrip_key inner :
  tk_valid inner -> try_from_u32 (into_u32 inner) = Some inner.
Proof.
  unfold try_from_u32, into_u32, tk_valid, two32. intros V.
  destruct (N.ltb_spec (inner - 1) (4294967296 - 1)); [f_equal; lia|lia].
Qed.

Theorem key_invalid_rejected raw : raw < two32 -> (try_from_u32 raw = None <-> raw = two32 - 1).
Proof.
  unfold try_from_u32, two32. intros L.
  destruct (N.ltb_spec raw (4294967296 - 1)); split; try discriminate; try lia; reflexivity.
Qed.

Theorem key_raw_injective a b : tk_valid a -> tk_valid b -> into_u32 a = into_u32 b -> a = b.
Proof. unfold into_u32, tk_valid, two32. lia. Qed.

(* foreign (lasso) key types: a conversion succeeds exactly below min(capacity, 2^32-1), round-trips,
   and otherwise reports an error — never a wrong key *)
Theorem foreign_key_conv k inner :
  tk_valid inner ->
  match to_lasso k inner with
  | Some i => i = into_u32 inner /\ i < lasso_cap k /\ from_lasso i = Some inner
  | None => lasso_cap k <= into_u32 inner
  end.
Proof.
  unfold to_lasso, lasso_try_from_usize, from_lasso, try_from_u32, into_u32, tk_valid, two32. intros V.
  destruct (N.ltb_spec (inner - 1) (lasso_cap k)) as [L|L]; [|exact L].
  split; [reflexivity|]. split; [exact L|].
  destruct (N.ltb_spec (inner - 1) 4294967296); [|lia].
  destruct (N.ltb_spec (inner - 1) (4294967296 - 1)); [f_equal; lia|lia].
Qed.

Theorem foreign_key_back k i :
  i < lasso_cap k ->
  match from_lasso i with
  | Some inner => tk_valid inner /\ to_lasso k inner = Some i
  | None => two32 - 1 <= i
  end.
Proof.
  unfold to_lasso, lasso_try_from_usize, from_lasso, try_from_u32, into_u32, tk_valid, two32. intros L.
  destruct (N.ltb_spec i 4294967296) as [L2|L2]; [|lia].
  destruct (N.ltb_spec i (4294967296 - 1)) as [L3|L3]; [|lia].
  split; [lia|]. replace (i + 1 - 1) with i by lia.
  destruct (N.ltb_spec i (lasso_cap k)); [reflexivity|lia].
Qed.

(* the builder's interner is the same table with the TokenKey capacity *)
Lemma intern_is_intern_c strs t :
  N.of_nat (length strs) < two32 - 1 -> intern_c (two32 - 1) strs t = Some (intern strs t).
Proof.
  intros L. unfold intern_c, intern. destruct (find_index _ strs); [reflexivity|].
  destruct (N.ltb_spec (N.of_nat (length strs)) (two32 - 1)); [reflexivity|lia].
Qed.

(* concurrent clause (partial): IF the thread-safe backend is linearizable with respect to this
   table — every concurrent history of intern requests has the results of SOME sequential order of
   the same requests — THEN every clause above holds for the concurrent history, because they hold
   for every sequential run.  The premise for lasso::ThreadedRodeo is exercised by stress runs, not
   proved. *)
Definition Linearization (reqs : list text) (results : list (option N)) (cap : N) : Prop :=
  exists order : list nat,
    NoDup order /\ length order = length reqs /\ (forall i, In i order -> (i < length reqs)%nat) /\
    let seq_reqs := map (fun i => nth i reqs []) order in
    let seq_res := fst (intern_all cap [] seq_reqs) in
    forall p i, nth_error order p = Some i -> nth_error results i = nth_error seq_res p.

Theorem concurrent_intern_linearizable_partial reqs results cap :
  Linearization reqs results cap ->
  forall i j k1 k2 t1 t2,
    nth_error results i = Some (Some k1) -> nth_error reqs i = Some t1 ->
    nth_error results j = Some (Some k2) -> nth_error reqs j = Some t2 ->
    (k1 = k2 <-> t1 = t2).
Proof.
  intros (order & NDo & Len & Bnd & Lin) i j k1 k2 t1 t2 A1 B1 A2 B2.
  assert (Perm : forall x, (x < length reqs)%nat -> exists p, nth_error order p = Some x).
  { intros x Lx.
    assert (I : incl (seq 0 (length reqs)) order).
    { apply NoDup_length_incl; [exact NDo|rewrite seq_length; lia|].
      intros y Hy. apply in_seq. specialize (Bnd y Hy). lia. }
    assert (Hx : In x order) by (apply I, in_seq; lia).
    apply In_nth_error in Hx. exact Hx. }
  assert (Li : (i < length reqs)%nat) by (apply nth_error_Some; congruence).
  assert (Lj : (j < length reqs)%nat) by (apply nth_error_Some; congruence).
  destruct (Perm i Li) as (p & Hp). destruct (Perm j Lj) as (q & Hq).
  pose proof (Lin p i Hp) as Ep. pose proof (Lin q j Hq) as Eq. cbn zeta in Ep, Eq.
  rewrite A1 in Ep. rewrite A2 in Eq.
  assert (Tp : nth_error (map (fun i0 => nth i0 reqs []) order) p = Some t1).
  { rewrite nth_error_map, Hp. cbn. f_equal. apply nth_error_nth. exact B1. }
  assert (Tq : nth_error (map (fun i0 => nth i0 reqs []) order) q = Some t2).
  { rewrite nth_error_map, Hq. cbn. f_equal. apply nth_error_nth. exact B2. }
  eapply (run_injective cap _ [] p q k1 k2 t1 t2); eauto. constructor.
Qed.
