(* ConcValid.v — C06 "never earlier", seen from the handles: as long as ANY thread holds ANY handle (to the
   root, an inner node or a token) the teardown has not started, the root block and the block of every
   initialised node slot are live and none of them has been freed, and the handle denotes the element stored
   for its position. *)
From CsModel Require Import Red RedProofs Conc ConcProofs ConcHandles ConcData ConcReclaim ConcWf ConcTear.
From Coq Require Import ZArith Lia List.
Import ListNotations.
Open Scope nat_scope.

Section ConcValid.
  Variable g : gelem.

  Lemma reg_of_in t r h : reg_of t r = Some h -> In h (reg_handles (t_regs t)).
  Proof.
    unfold reg_of. destruct (nth_error (t_regs t) r) as [[h'|]|] eqn:E; try discriminate. intros [= ->].
    revert r E. induction (t_regs t) as [|a l IH]; intros [|r] E; cbn [nth_error] in E; try discriminate.
    - injection E as ->. cbn [reg_handles flat_map]. left. reflexivity.
    - unfold reg_handles. cbn [flat_map]. apply in_or_app. right. apply (IH r E).
  Qed.

  Theorem handles_stay_valid progs s tid t r h :
    Reach g progs s -> nth_error (c_threads s) tid = Some t -> reg_of t r = Some h ->
    c_torn s = false /\
    In 0 (c_live s) /\ ~ In 0 (c_freed s) /\
    (forall q b, slot_lookup (c_slots s) q = Some (ENode b) -> In b (c_live s) /\ ~ In b (c_freed s)) /\
    HOk (c_slots s) h.
  Proof.
    intros R Ht Hr.
    destruct (reach_Good g _ _ R) as (_ & HI & _ & TN & _).
    destruct (free_once g _ _ R) as (_ & Dead & _ & Live).
    assert (NT : c_torn s = false).
    { destruct (c_torn s) eqn:T; [|reflexivity]. exfalso. destruct (TN T) as (F & _).
      rewrite Forall_forall in F. destruct (F t (nth_error_In _ _ Ht)) as (RE & _).
      rewrite (regs_empty_reg_of t r RE) in Hr. discriminate. }
    assert (L0 : In 0 (c_live s)).
    { apply Live. unfold blocks, blocks_of. rewrite NT. left. reflexivity. }
    split; [exact NT|]. split; [exact L0|]. split; [intros F0; exact (Dead 0 F0 L0)|]. split.
    - intros q b Lq. assert (Lb : In b (c_live s)).
      { apply Live. unfold blocks, blocks_of. apply in_or_app. right. apply in_or_app. left. eapply slot_blocks_in. exact Lq. }
      split; [exact Lb|]. intros Fb. exact (Dead b Fb Lb).
    - specialize (HI NT). rewrite Forall_forall in HI. specialize (HI t (nth_error_In _ _ Ht)).
      unfold THOk in HI. rewrite Forall_forall in HI. apply HI. unfold thread_handles. apply in_or_app. left. apply reg_of_in with (r := r). exact Hr.
  Qed.
End ConcValid.
