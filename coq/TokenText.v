(* TokenText.v — C11: token text, static text and text equality agree (syntax/token.rs). *)
From CsModel Require Import Builder BuilderSpec BuilderProofs GreenEq.
From Coq Require Import ZifyN ZifyNat ZifyBool.

(* a token as text_eq sees it: its kind and its key *)
Definition tkind (g : gelem) : kind := gkind g.
Definition tkey (g : gelem) : option N := match g with GTok _ _ key _ => key | _ => None end.

Section TokenText.
  Variable static_text : kind -> option text.

  Definition opt_text_eqb (a b : option text) : bool :=
    match a, b with Some x, Some y => text_eqb x y | None, None => true | _, _ => false end.

  (* SyntaxToken::text_eq after the fix of F6: keys if both have one, static texts if neither has,
     false for a static/interned pair; no assertion *)
  Definition text_eq (a b : gelem) : bool :=
    match tkey a, tkey b with
    | Some k1, Some k2 => k1 =? k2
    | None, None => opt_text_eqb (static_text (tkind a)) (static_text (tkind b))
    | _, _ => false
    end.

  (* the code before the fix: debug assertions, and kinds compared instead of texts *)
  Definition text_eq_old (debug : bool) (a b : gelem) : res bool :=
    match tkey a with
    | Some k1 => match tkey b with Some k2 => Ok (k1 =? k2) | None => Ok false end
    | None =>
        if debug && (match static_text (tkind a) with Some _ => false | None => true end) then Panic PTextEqDebug
        else if debug && (match static_text (tkind b) with Some _ => false | None => true end) then Panic PTextEqDebug
        else Ok (tkind a =? tkind b)
    end.

  Variable H : list hw -> N.
  Variable strs : list text.
  Hypothesis ND : NoDup strs.
  Notation WfG := (WfGreen static_text H strs).

  Definition ttext (g : gelem) : option text := tok_text static_text strs (tkind g) (tkey g).

  Theorem text_eq_sym a b : text_eq a b = text_eq b a.
  Proof.
    unfold text_eq. destruct (tkey a), (tkey b); try reflexivity.
    - apply N.eqb_sym.
    - destruct (static_text (tkind a)), (static_text (tkind b)); cbn; try reflexivity.
      destruct (text_eqb t t0) eqn:E1, (text_eqb t0 t) eqn:E2; try reflexivity.
      + apply text_eqb_eq in E1. subst. rewrite text_eqb_refl in E2. discriminate.
      + apply text_eqb_eq in E2. subst. rewrite text_eqb_refl in E1. discriminate.
  Qed.

  Lemma wf_token_cases id k key len :
    WfG (GTok id k key len) ->
    (exists st, static_text k = Some st /\ key = None /\ ttext (GTok id k key len) = Some st) \/
    (static_text k = None /\ exists i t, key = Some i /\ resolve strs i = Some t /\ ttext (GTok id k key len) = Some t).
  Proof.
    cbn [WfGreen]. unfold ttext, tok_text, tkind, tkey. cbn [gkind].
    destruct (static_text k) as [st|] eqn:S.
    - intros [-> _]. left. exists st. auto.
    - intros (i & t & -> & R & _). right. split; [reflexivity|]. exists i, t. rewrite R. auto.
  Qed.

  (* true only if the resolved texts are equal *)
  Theorem text_eq_sound ia ka keya la ib kb keyb lb :
    let a := GTok ia ka keya la in let b := GTok ib kb keyb lb in
    WfG a -> WfG b -> text_eq a b = true -> ttext a = ttext b.
  Proof.
    intros a b Wa Wb. unfold text_eq. cbn [tkey tkind a b gkind].
    destruct (wf_token_cases _ _ _ _ Wa) as [(sa & Sa & -> & Ta)|(Sa & i & ta & -> & Ra & Ta)];
    destruct (wf_token_cases _ _ _ _ Wb) as [(sb & Sb & -> & Tb)|(Sb & j & tb & -> & Rb & Tb)];
      fold a in Ta; fold b in Tb; rewrite Ta, Tb; try discriminate.
    - rewrite Sa, Sb. cbn. intros E. apply text_eqb_eq in E. subst. reflexivity.
    - intros E. apply N.eqb_eq in E. subst j. congruence.
  Qed.

  (* equal texts => true, when both kinds have static text or both have none *)
  Theorem text_eq_complete ia ka keya la ib kb keyb lb :
    let a := GTok ia ka keya la in let b := GTok ib kb keyb lb in
    WfG a -> WfG b ->
    (static_text ka = None <-> static_text kb = None) ->
    ttext a = ttext b -> text_eq a b = true.
  Proof.
    intros a b Wa Wb Same. unfold text_eq. cbn [tkey tkind a b gkind].
    destruct (wf_token_cases _ _ _ _ Wa) as [(sa & Sa & -> & Ta)|(Sa & i & ta & -> & Ra & Ta)];
    destruct (wf_token_cases _ _ _ _ Wb) as [(sb & Sb & -> & Tb)|(Sb & j & tb & -> & Rb & Tb)];
      fold a in Ta; fold b in Tb; rewrite Ta, Tb.
    - rewrite Sa, Sb. intros [= ->]. cbn. apply text_eqb_refl.
    - exfalso. rewrite Sa in Same. destruct Same as [_ X]. specialize (X Sb). discriminate.
    - exfalso. rewrite Sb in Same. destruct Same as [X _]. specialize (X Sa). discriminate.
    - intros [= ->]. rewrite (resolve_inj strs ND i j tb Ra Rb). apply N.eqb_refl.
  Qed.

  (* a kind with static text resolves to it without consulting the interner *)
  Theorem static_no_interner k st key strs1 strs2 :
    static_text k = Some st ->
    tok_text static_text strs1 k key = Some st /\ tok_text static_text strs2 k key = Some st.
  Proof. intros E. unfold tok_text. rewrite E. auto. Qed.

  (* adding a static token by kind alone or together with its text gives the same builder state
     (same element, same allocation, same caches) *)
  Theorem static_two_ways debug s k st :
    static_text k = Some st -> b_token static_text debug s k st = b_static_token static_text s k.
  Proof.
    intros E. unfold b_token, b_static_token. rewrite E, text_eqb_refl. cbn [negb]. rewrite andb_false_r. reflexivity.
  Qed.
End TokenText.

(* ---- the code before the fix (F6) ---- *)
Section Refuted.
  Let st (k : kind) : option text := if k =? 100 then Some [43] else if k =? 102 then Some [43] else None.

  (* debug build: a static token compared with an interned one panics *)
  Lemma text_eq_old_panics : text_eq_old st true (GTok 0 100 None 1) (GTok 1 5 (Some 0) 1) = Panic PTextEqDebug.
  Proof. reflexivity. Qed.

  (* two static kinds with the same text compare unequal *)
  Lemma text_eq_old_incomplete :
    text_eq_old st false (GTok 0 100 None 1) (GTok 1 102 None 1) = Ok false /\
    tok_text st [] 100 None = tok_text st [] 102 None.
  Proof. split; reflexivity. Qed.
End Refuted.
