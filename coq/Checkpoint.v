(* Checkpoint.v — C09: checkpoints wrap and roll back exactly as documented.
   All statements are about the builder model of Builder.v (any hash H, any static-text table,
   any cache threshold, debug or release), with the repaired revert guard. *)
From CsModel Require Import Builder.

Section Checkpoint.
  Variable static_text : kind -> option text.
  Variable H : list hw -> N.
  Variable threshold : nat.
  Variable debug : bool.

  Notation cache_node := (cache_node H threshold HeadAndChildren).
  Notation b_finish_node := (b_finish_node H threshold HeadAndChildren).
  Notation b_revert_to := (b_revert_to true).
  Notation b_step := (b_step static_text H threshold HeadAndChildren debug true).
  Notation b_run := (b_run static_text H threshold HeadAndChildren debug true).

  (* first-child indices are monotone along the open nodes and within the element stack *)
  Fixpoint mono (ps : list (kind * nat)) (hi : nat) : Prop :=
    match ps with
    | [] => True
    | (_, f) :: r => (f <= hi)%nat /\ mono r f
    end.
  Definition WF (s : bstate) : Prop := mono (b_parents s) (length (b_children s)).

  (* A checkpoint taken in state s0 is still valid for reverting in state s: nothing that existed
     at s0 has been removed (no older node finished, not reverted past it) — the open nodes of s0
     are still the outermost open nodes of s and the elements of s0 are still the oldest
     elements of s. *)
  Definition Valid_revert (s0 s : bstate) : Prop :=
    exists ps cs, b_parents s = ps ++ b_parents s0 /\ b_children s = cs ++ b_children s0.
  (* ... and valid for wrapping: additionally every node started since has been finished *)
  Definition Valid_wrap (s0 s : bstate) : Prop :=
    b_parents s = b_parents s0 /\ exists cs, b_children s = cs ++ b_children s0.

  Lemma mono_weaken ps hi hi' : (hi <= hi')%nat -> mono ps hi -> mono ps hi'.
  Proof. destruct ps as [|[k f] r]; cbn; [auto|]. intros L [A B]. split; [lia|exact B]. Qed.

  Lemma mono_app_r ps qs hi : mono (ps ++ qs) hi -> exists hi', (hi' <= hi)%nat /\ mono qs hi'.
  Proof.
    revert hi; induction ps as [|[k f] r IH]; cbn [app mono]; intros hi M.
    - exists hi; split; [lia|exact M].
    - destruct M as [A B]. destruct (IH _ B) as (h' & L & M'). exists h'; split; [lia|exact M'].
  Qed.

  Lemma truncate_app {A} (xs ys : list A) : truncate (length ys) (xs ++ ys) = ys.
  Proof.
    unfold truncate. rewrite app_length.
    replace (length xs + length ys - length ys)%nat with (length xs) by lia.
    rewrite skipn_app, skipn_all, Nat.sub_diag. reflexivity.
  Qed.

  Lemma truncate_app_ge {A} n (xs ys : list A) :
    (length ys <= n)%nat -> (n <= length xs + length ys)%nat ->
    truncate n (xs ++ ys) = truncate (n - length ys) xs ++ ys.
  Proof.
    intros L1 L2. unfold truncate. rewrite app_length, skipn_app.
    replace (length xs + length ys - n - length xs)%nat with 0%nat by lia.
    replace (length xs - (n - length ys))%nat with (length xs + length ys - n)%nat by lia.
    reflexivity.
  Qed.

  Lemma truncate_length {A} n (l : list A) : (n <= length l)%nat -> length (truncate n l) = n.
  Proof. intros L. unfold truncate. rewrite skipn_length. lia. Qed.

  Lemma truncate_suffix {A} n (l : list A) : exists pre, l = pre ++ truncate n l.
  Proof. exists (firstn (length l - n) l). unfold truncate. symmetry; apply firstn_skipn. Qed.

  (* ---- reverting to a valid checkpoint never panics and restores exactly the state ---- *)
  Theorem revert_valid s0 s :
    WF s0 -> Valid_revert s0 s ->
    exists s', b_revert_to s (b_checkpoint s0) = Ok s' /\
               b_parents s' = b_parents s0 /\ b_children s' = b_children s0 /\
               b_cache s' = b_cache s.
  Proof.
    intros W (ps & cs & EP & EC).
    unfold Builder.b_revert_to, b_checkpoint. cbn [cp_parent_idx cp_child_idx].
    rewrite EP, EC, !app_length.
    destruct (Nat.leb_spec (length (b_parents s0)) (length ps + length (b_parents s0))) as [_|L]; [|lia].
    destruct (Nat.leb_spec (length (b_children s0)) (length cs + length (b_children s0))) as [_|L]; [|lia].
    cbn [negb]. rewrite !truncate_app.
    assert (G : first_le (hd_error (b_parents s0)) (length (b_children s0)) = true).
    { unfold WF in W. destruct (b_parents s0) as [|[k1 f1] r1]; cbn in W |- *; [reflexivity|].
      apply Nat.leb_le. tauto. }
    rewrite G. eexists; split; [reflexivity|]. cbn. auto.
  Qed.

  (* ---- wrapping at a valid checkpoint never panics and the node gets exactly the new elements ---- *)
  Lemma cache_node_result c k cs g c' :
    cache_node c k cs = (g, c') ->
    gkind g = k /\ geq_list (gchildren g) cs = true /\ is_node g = true.
  Proof.
    unfold Builder.cache_node.
    pose proof geq_list_refl as R.
    destruct (length cs <=? threshold)%nat.
    - destruct (find _ (c_nodes c)) as [g0|] eqn:F.
      + intros [= <- <-]. apply find_some in F. destruct F as [_ M].
        unfold node_matches in M. destruct g0 as [|i k' len' h' cs']; [discriminate|].
        rewrite !andb_true_iff in M. destruct M as [[[K _] _] G]. apply N.eqb_eq in K.
        cbn. auto.
      + intros [= <- <-]. cbn. auto.
    - intros [= <- <-]. cbn. auto.
  Qed.

  Theorem wrap_valid s0 s k :
    WF s0 -> Valid_wrap s0 s ->
    exists s1, b_start_node_at s (b_checkpoint s0) k = Ok s1 /\
    exists s2 g cs, b_finish_node s1 = Ok s2 /\
      b_children s = cs ++ b_children s0 /\
      b_children s2 = g :: b_children s0 /\ b_parents s2 = b_parents s0 /\
      is_node g = true /\ gkind g = k /\ geq_list (gchildren g) (rev cs) = true.
  Proof.
    intros W (EP & cs & EC).
    unfold Builder.b_start_node_at, b_checkpoint. cbn [cp_parent_idx cp_child_idx].
    rewrite EP, EC, app_length, Nat.leb_refl. cbn [negb].
    destruct (Nat.leb_spec (length (b_children s0)) (length cs + length (b_children s0))) as [_|L]; [|lia].
    cbn [negb].
    assert (G : first_le (hd_error (b_parents s0)) (length (b_children s0)) = true).
    { unfold WF in W. destruct (b_parents s0) as [|[k0 f] r]; cbn in W |- *; [reflexivity|].
      apply Nat.leb_le. tauto. }
    rewrite G. eexists; split; [reflexivity|].
    unfold Builder.b_finish_node. cbn [b_parents b_children b_cache].
    rewrite app_length.
    destruct (Nat.leb_spec (length (b_children s0)) (length cs + length (b_children s0))) as [_|L]; [|lia].
    replace (length cs + length (b_children s0) - length (b_children s0))%nat with (length cs) by lia.
    rewrite firstn_app, Nat.sub_diag, firstn_all, firstn_O, app_nil_r.
    rewrite skipn_app, skipn_all, Nat.sub_diag. cbn [skipn app].
    destruct (cache_node (b_cache s) k (rev cs)) as [g c'] eqn:E.
    apply cache_node_result in E. destruct E as (K & G' & Nd).
    exists (mkB c' (b_parents s0) (g :: b_children s0)), g, cs.
    cbn. auto 10.
  Qed.

  (* ---- wrapping while a node started since the checkpoint is still open panics ---- *)
  Theorem wrap_open_panics s0 s k ps cs :
    b_parents s = ps ++ b_parents s0 -> b_children s = cs ++ b_children s0 -> ps <> [] ->
    b_start_node_at s (b_checkpoint s0) k = Panic PCheckpointUnfinished.
  Proof.
    intros EP EC NE.
    unfold Builder.b_start_node_at, b_checkpoint. cbn [cp_parent_idx cp_child_idx].
    rewrite EP, app_length.
    destruct (Nat.leb_spec (length (b_parents s0)) (length ps + length (b_parents s0))) as [_|L]; [|lia].
    cbn [negb].
    destruct ps as [|p ps']; [congruence|]. cbn [length].
    destruct (Nat.leb_spec (S (length ps') + length (b_parents s0)) (length (b_parents s0))) as [L|_]; [lia|].
    reflexivity.
  Qed.

  (* ---- any use of any checkpoint (valid or not) panics or leaves a well-formed builder ---- *)
  Lemma mono_truncate n ps hi : mono ps hi -> exists hi', (hi' <= hi)%nat /\ mono (truncate n ps) hi'.
  Proof.
    intros M. destruct (truncate_suffix n ps) as [pre E]. rewrite E in M.
    apply mono_app_r in M. exact M.
  Qed.

  Theorem revert_any_safe s cp s' :
    WF s -> b_revert_to s cp = Ok s' -> WF s'.
  Proof.
    unfold WF, Builder.b_revert_to. intros W.
    destruct (Nat.leb_spec (cp_parent_idx cp) (length (b_parents s))) as [Lp|_]; cbn [negb]; [|discriminate].
    destruct (Nat.leb_spec (cp_child_idx cp) (length (b_children s))) as [Lc|_]; cbn [negb]; [|discriminate].
    destruct (first_le _ _) eqn:G; [|discriminate].
    intros [= <-]. cbn [b_parents b_children]. rewrite truncate_length by exact Lc.
    destruct (mono_truncate (cp_parent_idx cp) _ _ W) as (h' & _ & M).
    destruct (truncate (cp_parent_idx cp) (b_parents s)) as [|[k0 f0] r]; [exact I|].
    cbn in G, M |- *. apply Nat.leb_le in G. split; [exact G|tauto].
  Qed.

  Theorem start_at_any_safe s cp k s' :
    WF s -> b_start_node_at s cp k = Ok s' -> WF s'.
  Proof.
    unfold WF, Builder.b_start_node_at. intros W.
    destruct (Nat.leb_spec (cp_parent_idx cp) (length (b_parents s))) as [Lp|_]; cbn [negb]; [|discriminate].
    destruct (Nat.leb_spec (length (b_parents s)) (cp_parent_idx cp)) as [Lq|_]; cbn [negb]; [|discriminate].
    destruct (Nat.leb_spec (cp_child_idx cp) (length (b_children s))) as [Lc|_]; cbn [negb]; [|discriminate].
    destruct (first_le _ _) eqn:G; [|discriminate].
    intros [= <-]. cbn [b_parents b_children mono]. split; [exact Lc|].
    destruct (b_parents s) as [|[k0 f0] r]; [exact I|].
    cbn in G, W |- *. apply Nat.leb_le in G. split; [exact G|tauto].
  Qed.

  Lemma cache_token_any c k key len g c' :
    cache_token c k key len = (g, c') -> True.
  Proof. auto. Qed.

  Theorem step_WF s regs o s' regs' :
    WF s -> b_step s regs o = (Ok s', regs') -> WF s'.
  Proof.
    intros W. destruct o as [k|k t|k t|k| | |i k|i]; cbn [Builder.b_step].
    - intros [= <- _]. unfold WF in W |- *. cbn. split; [lia|exact W].
    - unfold b_token. destruct (static_text k) as [st|].
      + destruct (debug && negb (text_eqb st t)); [discriminate|].
        destruct (cache_token _ _ _ _) as [g c]. intros [= <- _]. unfold WF in W |- *; cbn.
        eapply mono_weaken; [|exact W]. lia.
      + destruct (intern _ _) as [key strs]. destruct (cache_token _ _ _ _) as [g c].
        intros [= <- _]. unfold WF in W |- *; cbn. eapply mono_weaken; [|exact W]. lia.
    - destruct (static_text k) as [st|] eqn:ST; [|discriminate].
      unfold b_token. rewrite ST.
      destruct (debug && negb (text_eqb st t)); [discriminate|].
      destruct (cache_token _ _ _ _) as [g c]. intros [= <- _]. unfold WF in W |- *; cbn.
      eapply mono_weaken; [|exact W]. lia.
    - unfold b_static_token. destruct (static_text k) as [st|]; [|discriminate].
      destruct (cache_token _ _ _ _) as [g c]. intros [= <- _]. unfold WF in W |- *; cbn.
      eapply mono_weaken; [|exact W]. lia.
    - unfold Builder.b_finish_node. destruct (b_parents s) as [|[k f] ps] eqn:EP; [discriminate|].
      destruct (Nat.leb_spec f (length (b_children s))) as [Lf|_]; [|discriminate].
      destruct (Builder.cache_node _ _ _ _ _ _) as [g c]. intros [= <- _].
      unfold WF in W |- *. rewrite EP in W. cbn in W |- *. rewrite skipn_length.
      eapply mono_weaken; [|exact (proj2 W)]. lia.
    - intros [= <- _]. exact W.
    - destruct (nth_error regs i) as [cp|]; [|intros [= <- _]; exact W].
      intros E. injection E as E _. eapply start_at_any_safe; eauto.
    - destruct (nth_error regs i) as [cp|]; [|intros [= <- _]; exact W].
      intros E. injection E as E _. eapply revert_any_safe; eauto.
  Qed.

  (* every state reachable by ANY operation sequence (valid or invalid checkpoint uses, panics
     caught and ignored) is well-formed; hence finish_node never indexes out of bounds *)
  Theorem run_WF ops : forall s regs, WF s -> WF (fst (b_run s regs ops)).
  Proof.
    induction ops as [|o r IH]; intros s regs W; cbn [Builder.b_run]; [exact W|].
    destruct (b_step s regs o) as [rs regs'] eqn:E.
    destruct rs as [s'|p].
    - specialize (IH s' regs' (step_WF _ _ _ _ _ W E)).
      destruct (b_run s' regs' r) as [sf tr]. exact IH.
    - specialize (IH s regs' W). destruct (b_run s regs' r) as [sf tr]. exact IH.
  Qed.

  Theorem finish_node_in_bounds s :
    WF s -> b_finish_node s <> Panic PUnreachable.
  Proof.
    unfold WF, Builder.b_finish_node. intros W.
    destruct (b_parents s) as [|[k f] ps]; [discriminate|].
    cbn in W. destruct (Nat.leb_spec f (length (b_children s))) as [_|L]; [|lia].
    destruct (Builder.cache_node _ _ _ _ _ _). discriminate.
  Qed.

  (* ---- which operations keep a checkpoint valid (the prose of the documentation) ---- *)
  Theorem valid_preserved s0 s regs o s' regs' :
    Valid_revert s0 s -> b_step s regs o = (Ok s', regs') ->
    match o with
    | OFinishNode => match b_parents s with            (* the finished node is NEWER than s0 *)
                     | (_, f) :: _ => (length (b_children s0) <= f)%nat /\
                                      (length (b_parents s0) < length (b_parents s))%nat
                     | [] => False end
    | ORevert i => match nth_error regs i with
                   | Some cp => (length (b_parents s0) <= cp_parent_idx cp)%nat /\
                                (length (b_children s0) <= cp_child_idx cp)%nat  (* not reverted past it *)
                   | None => True end
    | _ => True
    end ->
    Valid_revert s0 s'.
  Proof.
    intros (ps & cs & EP & EC) E Side.
    destruct o as [k|k t|k t|k| | |i k|i]; cbn [Builder.b_step] in E.
    - injection E as <- _. exists ((k, length (b_children s)) :: ps), cs. cbn. rewrite EP. auto.
    - unfold b_token in E. destruct (static_text k) as [st|].
      + destruct (debug && negb (text_eqb st t)); [discriminate|].
        destruct (cache_token _ _ _ _) as [g c]. injection E as <- _.
        exists ps, (g :: cs). cbn. rewrite EC. auto.
      + destruct (intern _ _) as [key strs]. destruct (cache_token _ _ _ _) as [g c].
        injection E as <- _. exists ps, (g :: cs). cbn. rewrite EC. auto.
    - destruct (static_text k) as [st|] eqn:ST; [|discriminate].
      unfold b_token in E. rewrite ST in E.
      destruct (debug && negb (text_eqb st t)); [discriminate|].
      destruct (cache_token _ _ _ _) as [g c]. injection E as <- _.
      exists ps, (g :: cs). cbn. rewrite EC. auto.
    - unfold b_static_token in E. destruct (static_text k) as [st|]; [|discriminate].
      destruct (cache_token _ _ _ _) as [g c]. injection E as <- _.
      exists ps, (g :: cs). cbn. rewrite EC. auto.
    - unfold Builder.b_finish_node in E. rewrite EP in E, Side. rewrite app_length in Side.
      destruct ps as [|[k f] ps']; [cbn [app length] in Side; destruct (b_parents s0) as [|[? ?] ?]; [tauto|lia]|].
      cbn [app] in E, Side. destruct Side as [Sf _].
      destruct (Nat.leb_spec f (length (b_children s))) as [Lf|_]; [|discriminate].
      destruct (Builder.cache_node _ _ _ _ _ _) as [g c]. injection E as <- _.
      cbn [b_parents b_children].
      exists ps', (g :: skipn (length (b_children s) - f) cs). split; [reflexivity|].
      rewrite EC, app_length. rewrite skipn_app.
      replace (length cs + length (b_children s0) - f - length cs)%nat with 0%nat by lia.
      reflexivity.
    - injection E as <- _. exists ps, cs. auto.
    - destruct (nth_error regs i) as [cp|]; [|injection E as <- _; exists ps, cs; auto].
      injection E as E _. unfold Builder.b_start_node_at in E.
      destruct (negb _); [discriminate|]. destruct (negb _); [discriminate|].
      destruct (negb _); [discriminate|]. destruct (first_le _ _); [|discriminate].
      injection E as <-. exists ((k, cp_child_idx cp) :: ps), cs. cbn. rewrite EP. auto.
    - destruct (nth_error regs i) as [cp|]; [|injection E as <- _; exists ps, cs; auto].
      injection E as E _. destruct Side as [Sp Sc]. unfold Builder.b_revert_to in E.
      destruct (Nat.leb_spec (cp_parent_idx cp) (length (b_parents s))) as [Lp|_]; cbn [negb] in E; [|discriminate].
      destruct (Nat.leb_spec (cp_child_idx cp) (length (b_children s))) as [Lc|_]; cbn [negb] in E; [|discriminate].
      destruct (first_le _ _); [|discriminate]. injection E as <-.
      cbn [b_parents b_children].
      exists (truncate (cp_parent_idx cp - length (b_parents s0)) ps),
             (truncate (cp_child_idx cp - length (b_children s0)) cs).
      rewrite EP in Lp |- *. rewrite EC in Lc |- *. rewrite app_length in Lp, Lc.
      rewrite !truncate_app_ge by lia. auto.
  Qed.
End Checkpoint.

(* ---------------------------------------------------------------------------------------- *)
(* The guard of the code before the fix of F5 (third assert of revert_to inspects the node that
   is about to be discarded): the valid history  start; checkpoint; token; start; revert  panics. *)
Section Refuted.
  Let st : kind -> option text := fun _ => None.
  Let Hh : list hw -> N := fun _ => 0.
  Let s0 := b_start_node (new_builder empty_cache) 1.
  Let s2 := match b_token st false s0 2 [97] with Ok s1 => b_start_node s1 3 | Panic _ => s0 end.

  Lemma revert_valid_refuted :
    WF s0 /\ Valid_revert s0 s2 /\
    b_revert_to false s2 (b_checkpoint s0) = Panic PCheckpointFirstChild.
  Proof.
    split; [cbn; auto|]. split; [|reflexivity].
    exists [(3, 1%nat)], [GTok 0 2 (Some 0) 1]. split; reflexivity.
  Qed.

  (* non-vacuity of revert_valid / wrap_valid on the same history *)
  Example revert_valid_applies :
    exists s', b_revert_to true s2 (b_checkpoint s0) = Ok s' /\ b_children s' = [] /\ b_parents s' = [(1, 0%nat)].
  Proof. eexists; split; [reflexivity|]. split; reflexivity. Qed.
End Refuted.
