(* Replace.v — C14: replace_with (syntax/node.rs, syntax/token.rs) rebuilds the spine bottom-up with
   GreenNode::new and substitutes exactly the chosen element.  Paths here are root-first. *)
From CsModel Require Import Builder Red RedProofs BuilderProofs TextPos GreenEq.
From Coq Require Import ZifyN ZifyNat ZifyBool.

Fixpoint upd {A} (l : list A) (i : nat) (x : A) : list A :=
  match l, i with
  | [], _ => []
  | _ :: r, O => x :: r
  | a :: r, S j => a :: upd r j x
  end.

Lemma upd_length {A} (l : list A) i x : length (upd l i x) = length l.
Proof. revert i; induction l as [|a r IH]; intros [|i]; cbn; auto. Qed.

Lemma upd_split {A} (l : list A) i c x : nth_error l i = Some c -> upd l i x = firstn i l ++ x :: skipn (S i) l.
Proof.
  revert i; induction l as [|a r IH]; intros [|i]; cbn; try discriminate; [reflexivity|].
  intros E. rewrite (IH i E). reflexivity.
Qed.

Lemma nth_split {A} (l : list A) i c : nth_error l i = Some c -> l = firstn i l ++ c :: skipn (S i) l.
Proof.
  revert i; induction l as [|a r IH]; intros [|i]; cbn; try discriminate; [intros [= ->]; reflexivity|].
  intros E. f_equal. apply IH. exact E.
Qed.

(* the reference operation on plain trees *)
Fixpoint ssubst (s : stree) (p : list nat) (x : stree) : stree :=
  match p with
  | [] => x
  | i :: p' =>
      match s with
      | SNode k cs => match nth_error cs i with
                      | Some c => SNode k (upd cs i (ssubst c p' x))
                      | None => s
                      end
      | STok _ _ => s
      end
  end.

Section Replace.
  Variable static_text : kind -> option text.
  Variable H : list hw -> N.
  Variable strs : list text.

  Notation WfG := (WfGreen static_text H strs).
  Notation WfGs := (WfGreens static_text H strs).
  Notation den := (denote static_text strs).
  Notation gt := (gtext static_text strs).

  (* [replace_at g p r fresh]: the element at p (a node replaced by a node, a token by a token, of the
     same kind) is replaced by r; every ancestor is rebuilt with GreenNode::new (fresh allocation,
     length and hash recomputed) *)
  Fixpoint replace_at (g : gelem) (p : list nat) (r : gelem) (fresh : N) : res gelem :=
    match p with
    | [] => if (gkind g =? gkind r) then Ok r else Panic PKindMismatch
    | i :: p' =>
        match nth_error (gchildren g) i with
        | Some c =>
            match replace_at c p' r (fresh + 1) with
            | Ok c' => Ok (green_node_new H fresh (gkind g) (upd (gchildren g) i c'))
            | Panic q => Panic q
            end
        | None => Panic POther
        end
    end.

  Lemma den_children e : is_node e = true -> den e = SNode (gkind e) (map den (gchildren e)).
  Proof. destruct e; [discriminate|reflexivity]. Qed.

  Lemma map_upd {A B} (f : A -> B) (l : list A) i x : map f (upd l i x) = upd (map f l) i (f x).
  Proof. revert i; induction l as [|a r IH]; intros [|i]; cbn; auto. rewrite IH. reflexivity. Qed.

  Lemma sub_is_node g i p e : sub g (i :: p) = Some e -> is_node g = true.
  Proof. cbn. destruct g; [destruct i; discriminate|reflexivity]. Qed.

  (* the new tree equals the original everywhere except at the chosen position *)
  Theorem replace_denote : forall p g e r fresh,
    sub g p = Some e -> gkind e = gkind r ->
    exists g', replace_at g p r fresh = Ok g' /\ den g' = ssubst (den g) p (den r).
  Proof.
    induction p as [|i p IH]; intros g e r fresh S K.
    - cbn in S. injection S as <-. cbn. rewrite K, N.eqb_refl. eexists; split; reflexivity.
    - pose proof (sub_is_node g i p e S) as Nd. cbn [sub] in S.
      destruct (nth_error (gchildren g) i) as [c|] eqn:E; [|discriminate].
      destruct (IH c e r (fresh + 1) S K) as (c' & R & D).
      cbn [replace_at]. rewrite E, R. eexists; split; [reflexivity|].
      rewrite (den_children g Nd). cbn [green_node_new denote ssubst].
      rewrite nth_error_map, E. cbn [option_map]. rewrite map_upd, D. reflexivity.
  Qed.

  Theorem replace_kind_mismatch : forall p g e r fresh,
    sub g p = Some e -> gkind e <> gkind r -> replace_at g p r fresh = Panic PKindMismatch.
  Proof.
    induction p as [|i p IH]; intros g e r fresh S K.
    - cbn in S. injection S as <-. cbn. destruct (N.eqb_spec (gkind g) (gkind r)); [contradiction|reflexivity].
    - cbn [sub] in S. destruct (nth_error (gchildren g) i) as [c|] eqn:E; [|discriminate].
      cbn [replace_at]. rewrite E, (IH c e r (fresh + 1) S K). reflexivity.
  Qed.

  Lemma Forall_upd {A} (P : A -> Prop) l i x : Forall P l -> P x -> Forall P (upd l i x).
  Proof.
    revert i; induction l as [|a r IH]; intros [|i] F Px; cbn; try constructor; inversion F; subst; auto.
  Qed.

  (* all lengths (and hashes) along the spine are recomputed: the result is well formed *)
  Theorem replace_wf : forall p g e r fresh g',
    WfG g -> WfG r -> sub g p = Some e -> replace_at g p r fresh = Ok g' -> WfG g'.
  Proof.
    induction p as [|i p IH]; intros g e r fresh g' Wg Wr S R.
    - cbn in R. destruct (gkind g =? gkind r); [|discriminate]. injection R as <-. exact Wr.
    - cbn [sub] in S. destruct (nth_error (gchildren g) i) as [c|] eqn:E; [|discriminate].
      cbn [replace_at] in R. rewrite E in R.
      destruct (replace_at c p r (fresh + 1)) as [c'|q] eqn:Rc; [|discriminate]. injection R as <-.
      apply green_node_new_wf. apply WfGs_Forall. apply Forall_upd.
      + apply (WfG_children static_text H strs). exact Wg.
      + assert (Wc : WfG c).
        { pose proof (WfG_children static_text H strs g Wg) as F. rewrite Forall_forall in F. apply F. eapply nth_error_In; eauto. }
        exact (IH c e r (fresh + 1) c' Wc Wr S Rc).
  Qed.

  Lemma geq_list_upd : forall l i c x, nth_error l i = Some c -> geq x c = true -> geq_list (upd l i x) l = true.
  Proof.
    induction l as [|a r IH]; intros [|i] c x E G; cbn in *; try discriminate.
    - injection E as ->. rewrite G, geq_list_refl. reflexivity.
    - rewrite geq_refl. apply (IH i c x E G).
  Qed.

  (* replacing an element by an equal one yields a tree equal to the original *)
  Theorem replace_equal : forall p g e r fresh g',
    WfG g -> sub g p = Some e -> geq r e = true -> replace_at g p r fresh = Ok g' -> geq g' g = true.
  Proof.
    induction p as [|i p IH]; intros g e r fresh g' Wg S G R.
    - cbn in S. injection S as <-. cbn in R. destruct (gkind g =? gkind r); [|discriminate]. injection R as <-. exact G.
    - pose proof (sub_is_node g i p e S) as Nd. cbn [sub] in S.
      destruct (nth_error (gchildren g) i) as [c|] eqn:E; [|discriminate].
      cbn [replace_at] in R. rewrite E in R.
      destruct (replace_at c p r (fresh + 1)) as [c'|q] eqn:Rc; [|discriminate]. injection R as <-.
      assert (Wc : WfG c).
      { pose proof (WfG_children static_text H strs g Wg) as F. rewrite Forall_forall in F. apply F. eapply nth_error_In; eauto. }
      pose proof (IH c e r (fresh + 1) c' Wc S G Rc) as Gc.
      destruct g as [|id k len h cs]; [discriminate|]. cbn [gchildren gkind] in *.
      apply WfGreen_node in Wg. destruct Wg as (-> & -> & _).
      unfold green_node_new. rewrite geq_node_unfold.
      pose proof (geq_list_upd cs i c c' E Gc) as GL. rewrite GL.
      destruct (geq_list_heads (upd cs i c') cs GL) as [A B]. rewrite A, B, !N.eqb_refl. reflexivity.
  Qed.

  (* text: the original text with the element's span replaced by the replacement's text *)
  Fixpoint tb (g : gelem) (p : list nat) : text :=
    match p with
    | [] => []
    | i :: p' => flat_map gt (firstn i (gchildren g)) ++
                 match nth_error (gchildren g) i with Some c => tb c p' | None => [] end
    end.
  Fixpoint ta (g : gelem) (p : list nat) : text :=
    match p with
    | [] => []
    | i :: p' => match nth_error (gchildren g) i with Some c => ta c p' | None => [] end ++
                 flat_map gt (skipn (S i) (gchildren g))
    end.

  Lemma gt_children e : is_node e = true -> gt e = flat_map gt (gchildren e).
  Proof. destruct e as [|id k len h cs]; [discriminate|]. intros _. apply gtext_node. Qed.

  Theorem text_split_rf : forall p g e, sub g p = Some e -> gt g = tb g p ++ gt e ++ ta g p.
  Proof.
    induction p as [|i p IH]; intros g e S.
    - cbn in S. injection S as <-. cbn. rewrite app_nil_r. reflexivity.
    - pose proof (sub_is_node g i p e S) as Nd. cbn [sub] in S.
      destruct (nth_error (gchildren g) i) as [c|] eqn:E; [|discriminate].
      cbn [tb ta]. rewrite E, (gt_children g Nd). rewrite (nth_split _ _ _ E) at 1.
      rewrite flat_map_app. cbn [flat_map]. rewrite (IH c e S), <- !app_assoc. reflexivity.
  Qed.

  Theorem replace_text : forall p g e r fresh g',
    sub g p = Some e -> replace_at g p r fresh = Ok g' -> gt g' = tb g p ++ gt r ++ ta g p.
  Proof.
    induction p as [|i p IH]; intros g e r fresh g' S R.
    - cbn in R. destruct (gkind g =? gkind r); [|discriminate]. injection R as <-. cbn. rewrite app_nil_r. reflexivity.
    - cbn [sub] in S. destruct (nth_error (gchildren g) i) as [c|] eqn:E; [|discriminate].
      cbn [replace_at] in R. rewrite E in R.
      destruct (replace_at c p r (fresh + 1)) as [c'|q] eqn:Rc; [|discriminate]. injection R as <-.
      unfold green_node_new. rewrite gtext_node, (upd_split _ _ _ _ E), flat_map_app. cbn [flat_map tb ta].
      rewrite E, (IH c e r (fresh + 1) c' S Rc), <- !app_assoc. reflexivity.
  Qed.

  (* the byte offset of the replaced span is the length of the text before it (both trees) *)
  Theorem replace_spans : forall p g e r fresh g',
    sub g p = Some e -> replace_at g p r fresh = Ok g' ->
    gt g = tb g p ++ gt e ++ ta g p /\ gt g' = tb g p ++ gt r ++ ta g p.
  Proof. intros. split; [apply text_split_rf; assumption|eapply replace_text; eauto]. Qed.
End Replace.
