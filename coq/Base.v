(* Base.v — shared vocabulary of the cstree model: results with panics, texts, list helpers.
   Definitions only (plus a few list lemmas); everything here is total and computable. *)
From Coq Require Export List NArith Arith Lia Bool.
Export ListNotations.
Open Scope N_scope.

Arguments N.add : simpl never.
Arguments N.sub : simpl never.
Arguments N.mul : simpl never.
Arguments N.eqb : simpl never.
Arguments N.ltb : simpl never.
Arguments N.leb : simpl never.

(* ------------------------------------------------------------------------------------------ *)
(* Results: the Rust code either returns or panics.  Panics are classified by the site.       *)
Inductive panic :=
| PFinishNodeNoParent      (* builder.rs finish_node: parents.pop().unwrap()                *)
| PFinishNotOne            (* builder.rs finish: assert_eq!(children.len(), 1)              *)
| PFinishToken             (* builder.rs finish: only a token                               *)
| PCheckpointParents       (* revert_to/start_node_at: parent_idx <= parents.len()          *)
| PCheckpointUnfinished    (* start_node_at: parent_idx >= parents.len()                    *)
| PCheckpointChildren      (* child_idx <= children.len()                                   *)
| PCheckpointFirstChild    (* child_idx >= first_child of the relevant parent               *)
| PStaticMissing           (* static_token on a kind without static text                    *)
| PStaticMismatch          (* debug_assert_eq!(static_text, text) in token()                *)
| PIntern                  (* the interner reported an error (try_get_or_intern -> panic)   *)
| PKindMismatch            (* replace_with: assert_eq!(kind)                                *)
| PSliceRange              (* SyntaxText::slice asserts                                     *)
| POffsetRange             (* token_at_offset / covering_element precondition               *)
| PUnreachable             (* an unreachable!() / unwrap that the theorems show unreachable *)
| PTextEqDebug             (* debug_assert in text_eq                                       *)
| PFromRaw                 (* Syntax::from_raw on an out-of-range raw kind                  *)
| PCharBoundary            (* str slicing at a byte offset that is not a character boundary *)
| POther.

Inductive res (A : Type) : Type := Ok (a : A) | Panic (p : panic).
Arguments Ok {A} a.
Arguments Panic {A} p.

Definition res_bind {A B} (r : res A) (f : A -> res B) : res B :=
  match r with Ok a => f a | Panic p => Panic p end.

Definition is_ok {A} (r : res A) : bool := match r with Ok _ => true | Panic _ => false end.

(* ------------------------------------------------------------------------------------------ *)
(* Text: a Rust `str` is modelled as the list of its code points; its byte length is the sum  *)
(* of the UTF-8 widths.  (Valid UTF-8 is Rust's type invariant for str: trusted.)             *)
Definition cp := N.
Definition text := list cp.

Definition utf8_width (c : cp) : N :=
  if c <? 128 then 1 else if c <? 2048 then 2 else if c <? 65536 then 3 else 4.

Fixpoint byte_len (t : text) : N :=
  match t with [] => 0 | c :: r => utf8_width c + byte_len r end.

Fixpoint text_eqb (a b : text) : bool :=
  match a, b with
  | [], [] => true
  | x :: a', y :: b' => (x =? y) && text_eqb a' b'
  | _, _ => false
  end.

Definition kind := N.

(* option N equality *)
Definition optN_eqb (a b : option N) : bool :=
  match a, b with
  | None, None => true
  | Some x, Some y => x =? y
  | _, _ => false
  end.

(* sum of a list of N *)
Fixpoint sumN (l : list N) : N := match l with [] => 0 | x :: r => x + sumN r end.

(* index of the first element satisfying p *)
Fixpoint find_index {A} (p : A -> bool) (l : list A) : option nat :=
  match l with
  | [] => None
  | x :: r => if p x then Some O else option_map S (find_index p r)
  end.

(* ------------------------------------------------------------------------------------------ *)
Lemma utf8_width_bounds c : 1 <= utf8_width c <= 4.
Proof. unfold utf8_width. destruct (c <? 128), (c <? 2048), (c <? 65536); lia. Qed.

Lemma text_eqb_eq a b : text_eqb a b = true <-> a = b.
Proof.
  revert b; induction a as [|x a IH]; intros [|y b]; cbn; try (split; [discriminate|discriminate]).
  - split; reflexivity.
  - rewrite andb_true_iff, N.eqb_eq, IH. split; [intros [-> ->]; reflexivity | intros [= -> ->]; auto].
Qed.

Lemma text_eqb_refl a : text_eqb a a = true.
Proof. apply text_eqb_eq; reflexivity. Qed.

Lemma optN_eqb_eq a b : optN_eqb a b = true <-> a = b.
Proof.
  destruct a, b; cbn; try (split; [discriminate|discriminate]).
  - rewrite N.eqb_eq. split; [intros ->; reflexivity | intros [= ->]; reflexivity].
  - split; reflexivity.
Qed.

Lemma byte_len_app a b : byte_len (a ++ b) = byte_len a + byte_len b.
Proof. induction a as [|x a IH]; cbn [byte_len app]; [lia|]. rewrite IH. lia. Qed.

Lemma sumN_app a b : sumN (a ++ b) = sumN a + sumN b.
Proof. induction a as [|x a IH]; cbn [sumN app]; [lia|]. rewrite IH. lia. Qed.
