(* OffsetSpec.v — C13: covering_element / token_at_offset find the right element and never hit their
   internal panics inside the documented precondition. *)
From CsModel Require Import Red RedProofs.
From Coq Require Import ZifyN ZifyNat ZifyBool.

Lemma Forall2_one {A B} (R : A -> B -> Prop) (l : list A) (b : B) :
  Forall2 R l [b] -> exists a, l = [a] /\ R a b.
Proof. intros F. inversion F as [|a b' l' bs' Ra Fr]; subst. inversion Fr; subst. exists a; auto. Qed.
Lemma Forall2_two {A B} (R : A -> B -> Prop) (l : list A) (b1 b2 : B) :
  Forall2 R l [b1; b2] -> exists a1 a2, l = [a1; a2] /\ R a1 b1 /\ R a2 b2.
Proof.
  intros F. inversion F as [|a b' l' bs' Ra Fr]; subst. apply Forall2_one in Fr. destruct Fr as (a2 & -> & R2).
  exists a, a2; auto.
Qed.

Section OffsetSpec.
  Variable g : gelem.
  Hypothesis Hlen : LenOk g.

  Notation Inv := (Inv g).

  (* q lies in the subtree rooted at p *)
  Definition below (q p : pos) : Prop := exists l, q = l ++ p.

  Definition true_contains (q : pos) (a b : N) : Prop :=
    true_off g q <= a /\ b <= true_off g q + len_at g q.

  (* ---- covering_element ---- *)
  Definition CovSpec (rec : gelem -> pos -> N -> N -> rstate -> res pos * rstate) (c : gelem) : Prop :=
    forall q a b rs, subr g q = Some c -> Inv rs -> Known rs q ->
      contains_range (offset_of rs q) (glen c) a b = true ->
      exists r, fst (rec c q a b rs) = Ok r /\ below r q /\ true_contains r a b /\
                (* deepest: no child of the result contains the range *)
                forall i ci, nth_error (kids g r) i = Some ci -> ~ true_contains (i :: r) a b.

  Lemma contains_true rs q c a b :
    Inv rs -> Known rs q -> subr g q = Some c ->
    (contains_range (offset_of rs q) (glen c) a b = true <-> true_contains q a b).
  Proof.
    intros I K S. unfold contains_range, true_contains, len_at. rewrite (offset_known g rs q I K), S.
    rewrite andb_true_iff, !N.leb_le. tauto.
  Qed.

  Lemma cov_loop_spec rec p a b : forall l pre rs,
    kids g p = pre ++ l -> Forall (CovSpec rec) l -> Inv rs -> Known rs p ->
    true_contains p a b ->
    (forall i ci, (i < length pre)%nat -> nth_error (kids g p) i = Some ci -> ~ true_contains (i :: p) a b) ->
    exists r, fst (cov_loop rec p a b l (length pre) (true_off g p + sumN (map glen pre)) rs) = Ok r /\
              below r p /\ true_contains r a b /\
              forall i ci, nth_error (kids g r) i = Some ci -> ~ true_contains (i :: r) a b.
  Proof.
    induction l as [|c r IH]; intros pre rs E F I Kp Tp Before; cbn [cov_loop].
    - cbn. exists p. split; [reflexivity|]. split; [exists []; reflexivity|]. split; [exact Tp|].
      intros i ci Ei. apply (Before i ci); [|exact Ei].
      rewrite E, app_nil_r in Ei. apply nth_error_Some. congruence.
    - inversion F as [|? ? Fc Fr]; subst.
      assert (Eo : true_off g p + sumN (map glen pre) = true_off g (length pre :: p)).
      { cbn [true_off]. rewrite E, firstn_app, Nat.sub_diag, firstn_all. cbn [firstn]. rewrite app_nil_r. reflexivity. }
      set (rs1 := goa rs (length pre :: p) (true_off g p + sumN (map glen pre))).
      assert (I1 : Inv rs1) by (apply goa_inv; assumption).
      assert (K1 : Known rs1 (length pre :: p)) by apply goa_known.
      assert (S1 : subr g (length pre :: p) = Some c).
      { rewrite kids_nth, E, nth_error_app2, Nat.sub_diag; [reflexivity|lia]. }
      destruct (contains_range (offset_of rs1 (length pre :: p)) (glen c) a b) eqn:C.
      + destruct (Fc _ a b rs1 S1 I1 K1 C) as (r0 & R0 & B0 & T0 & D0).
        exists r0. split; [exact R0|]. split; [|split; assumption].
        destruct B0 as [l0 ->]. exists (l0 ++ [length pre]). rewrite <- app_assoc. reflexivity.
      + assert (NC : ~ true_contains (length pre :: p) a b).
        { intros T. apply (contains_true rs1 _ c a b I1 K1 S1) in T. congruence. }
        assert (IH' := IH (pre ++ [c]) rs1). rewrite app_length, map_app, sumN_app in IH'. cbn [length map sumN] in IH'.
        replace (length pre + 1)%nat with (S (length pre)) in IH' by lia.
        replace (true_off g p + (sumN (map glen pre) + (glen c + 0))) with (true_off g p + sumN (map glen pre) + glen c) in IH' by lia.
        apply IH'; [rewrite <- app_assoc; exact E|exact Fr|exact I1|eapply Known_le; [apply goa_le|exact Kp]|exact Tp|].
        intros i ci Li Ei. destruct (Nat.eq_dec i (length pre)) as [->|NE]; [exact NC|].
        apply (Before i ci); [lia|exact Ei].
  Qed.

  Lemma cov_of_spec e : CovSpec cov_of e.
  Proof.
    induction e as [id k key len|id k len h cs IH] using gelem_ind'; intros p a b rs S I K C; cbn [cov_of]; rewrite C; cbn [negb].
    - exists p. split; [reflexivity|]. split; [exists []; reflexivity|].
      split; [apply (contains_true rs p _ a b I K S); exact C|].
      intros i ci Ei. unfold kids in Ei. rewrite S in Ei. destruct i; discriminate.
    - assert (Ek : kids g p = cs) by (unfold kids; rewrite S; reflexivity).
      pose proof (cov_loop_spec cov_of p a b cs [] rs Ek IH I K) as L. cbn [length map sumN] in L.
      rewrite N.add_0_r in L. rewrite (offset_known g rs p I K). apply L.
      + apply (contains_true rs p _ a b I K S); exact C.
      + intros i ci Li; lia.
  Qed.

  (* covering_element inside its precondition: no panic, the result is in the subtree, contains the
     range, and none of its children does (the deepest along the branch taken) *)
  Theorem cover_spec rs p a b :
    Inv rs -> Known rs p -> subr g p <> None -> true_contains p a b ->
    exists r, fst (covering_element g rs p a b) = Ok r /\ below r p /\ true_contains r a b /\
              forall i ci, nth_error (kids g r) i = Some ci -> ~ true_contains (i :: r) a b.
  Proof.
    intros I K Sn T. unfold covering_element. destruct (subr g p) as [e|] eqn:S; [|congruence].
    apply cov_of_spec; [exact S|exact I|exact K|]. apply (contains_true rs p e a b I K S). exact T.
  Qed.

  (* outside the precondition it panics (as documented) *)
  Theorem cover_outside rs p a b e :
    Inv rs -> Known rs p -> subr g p = Some e -> ~ true_contains p a b ->
    fst (covering_element g rs p a b) = Panic POffsetRange.
  Proof.
    intros I K S NT. unfold covering_element. rewrite S.
    assert (C : contains_range (offset_of rs p) (glen e) a b = false).
    { destruct (contains_range (offset_of rs p) (glen e) a b) eqn:C; [|reflexivity].
      apply (contains_true rs p e a b I K S) in C. contradiction. }
    destruct e; cbn [cov_of]; rewrite C; reflexivity.
  Qed.

  (* ---------------------------------------------------------------------------------------- *)
  (* token_at_offset *)
  Definition hit (t len off : N) : bool := negb (len =? 0) && (t <=? off) && (off <=? t + len).

  (* the children (with index and true start) that pass the filter of token_at_offset *)
  Fixpoint hit_children (l : list gelem) (idx : nat) (t off : N) : list (gelem * nat * N) :=
    match l with
    | [] => []
    | c :: r => if hit t (glen c) off then (c, idx, t) :: hit_children r (S idx) (t + glen c) off
                else hit_children r (S idx) (t + glen c) off
    end.

  Lemma hit_children_none l : forall idx t off,
    off < t \/ t + sumN (map glen l) < off \/ sumN (map glen l) = 0 -> hit_children l idx t off = [].
  Proof.
    induction l as [|c r IH]; intros idx t off Hc; cbn [hit_children]; [reflexivity|].
    cbn [map sumN] in Hc. unfold hit.
    destruct (N.eqb_spec (glen c) 0) as [Z|NZ]; cbn [negb andb].
    - apply IH. lia.
    - destruct (N.leb_spec t off); destruct (N.leb_spec off (t + glen c)); cbn [andb]; try (apply IH; lia).
      exfalso. lia.
  Qed.

  (* inside a non-empty run of children exactly one or two children touch the offset; two only when
     they meet there; at the two ends of the run exactly one *)
  Lemma hit_children_cases l : forall idx t off,
    t <= off <= t + sumN (map glen l) -> 0 < sumN (map glen l) ->
    (exists c i s, hit_children l idx t off = [(c, i, s)] /\ 0 < glen c /\ s <= off <= s + glen c /\
                   (off = t -> s = off) /\ (off = t + sumN (map glen l) -> s + glen c = off)) \/
    (exists c1 i1 s1 c2 i2 s2, hit_children l idx t off = [(c1, i1, s1); (c2, i2, s2)] /\
                   0 < glen c1 /\ 0 < glen c2 /\ s1 + glen c1 = off /\ s2 = off /\
                   t < off < t + sumN (map glen l)).
  Proof.
    induction l as [|c r IH]; intros idx t off R P; cbn [map sumN] in *; [lia|].
    cbn [hit_children]. unfold hit.
    destruct (N.eqb_spec (glen c) 0) as [Z|NZ]; cbn [negb andb].
    - assert (R' : t + glen c <= off <= t + glen c + sumN (map glen r)) by lia.
      assert (P' : 0 < sumN (map glen r)) by lia.
      destruct (IH (S idx) (t + glen c) off R' P') as [(c0 & i0 & s0 & E & A)|(c1 & i1 & s1 & c2 & i2 & s2 & E & A)].
      + left. exists c0, i0, s0. split; [exact E|]. lia.
      + right. exists c1, i1, s1, c2, i2, s2. split; [exact E|]. lia.
    - destruct (N.leb_spec t off) as [L1|L1]; [|lia].
      destruct (N.leb_spec off (t + glen c)) as [L2|L2]; cbn [andb].
      + (* c is hit *)
        destruct (N.eq_dec off (t + glen c)) as [Eb|Nb].
        * (* at the right end of c: the rest may contribute one more *)
          destruct (N.eq_dec (sumN (map glen r)) 0) as [Zr|NZr].
          -- rewrite (hit_children_none r); [|lia]. left. exists c, idx, t. split; [reflexivity|]. lia.
          -- assert (R' : t + glen c <= off <= t + glen c + sumN (map glen r)) by lia.
             assert (P' : 0 < sumN (map glen r)) by lia.
             destruct (IH (S idx) (t + glen c) off R' P') as [(c0 & i0 & s0 & E & A)|(c1 & i1 & s1 & c2 & i2 & s2 & E & A)].
             ++ right. exists c, idx, t, c0, i0, s0. rewrite E. split; [reflexivity|]. lia.
             ++ lia.
        * rewrite (hit_children_none r); [|lia]. left. exists c, idx, t. split; [reflexivity|]. lia.
      + assert (R' : t + glen c <= off <= t + glen c + sumN (map glen r)) by lia.
        assert (P' : 0 < sumN (map glen r)) by lia.
        destruct (IH (S idx) (t + glen c) off R' P') as [(c0 & i0 & s0 & E & A)|(c1 & i1 & s1 & c2 & i2 & s2 & E & A)].
        * left. exists c0, i0, s0. split; [exact E|]. lia.
        * right. exists c1, i1, s1, c2, i2, s2. split; [exact E|]. lia.
  Qed.

  (* a non-empty token below q whose range touches the offset *)
  Definition TokAt (q tk : pos) (off : N) : Prop :=
    below tk q /\ is_node_at g tk = false /\ subr g tk <> None /\ 0 < len_at g tk /\
    true_off g tk <= off <= true_off g tk + len_at g tk.

  Definition TaoGood (q : pos) (off : N) (x : tao_res) : Prop :=
    match x with
    | TNone => False
    | TSingle t => TokAt q t off
    | TBetween l r => TokAt q l off /\ TokAt q r off /\ true_off g l + len_at g l = off /\ true_off g r = off
    end.

  (* ---- completeness: EVERY non-empty token below q that touches the offset is in the answer ---- *)
  Definition tao_list (x : tao_res) : list pos :=
    match x with TNone => [] | TSingle t => [t] | TBetween l r => [l; r] end.
  Definition Complete (q : pos) (off : N) (x : tao_res) : Prop := forall t, TokAt q t off -> In t (tao_list x).

  Lemma sumN_firstn_le : forall (l : list gelem) i c,
    nth_error l i = Some c -> sumN (map glen (firstn i l)) + glen c <= sumN (map glen l).
  Proof.
    induction l as [|a l IH]; intros [|i] c E; cbn [nth_error firstn map sumN] in *; try discriminate.
    - injection E as ->. lia.
    - specialize (IH i c E). lia.
  Qed.

  Lemma kids_some_node q i c : nth_error (kids g q) i = Some c -> is_node_at g q = true /\ subr g q <> None.
  Proof.
    unfold kids, is_node_at. destruct (subr g q) as [e|]; [|destruct i; discriminate].
    destruct e; cbn [gchildren is_node]; [destruct i; discriminate|]. intros _. split; [reflexivity|discriminate].
  Qed.

  Lemma child_range i q c : nth_error (kids g q) i = Some c ->
    true_off g q <= true_off g (i :: q) /\ true_off g (i :: q) + glen c <= true_off g q + len_at g q.
  Proof.
    intros E. cbn [true_off]. destruct (kids_some_node q i c E) as [Nd _].
    rewrite (len_at_sum g Hlen q Nd). pose proof (sumN_firstn_le _ _ _ E). lia.
  Qed.

  Lemma subr_prefix : forall l q, subr g (l ++ q) <> None -> subr g q <> None.
  Proof.
    induction l as [|a l IH]; intros q S; cbn [app] in S; [exact S|].
    apply IH. rewrite kids_nth in S. destruct (nth_error (kids g (l ++ q)) a) as [c|] eqn:E; [|congruence].
    apply (kids_some_node _ _ _ E).
  Qed.

  Lemma below_range : forall l q, subr g (l ++ q) <> None ->
    true_off g q <= true_off g (l ++ q) /\ true_off g (l ++ q) + len_at g (l ++ q) <= true_off g q + len_at g q.
  Proof.
    induction l as [|a l IH]; intros q S; cbn [app] in *; [lia|].
    rewrite kids_nth in S. destruct (nth_error (kids g (l ++ q)) a) as [c|] eqn:E; [|congruence].
    destruct (kids_some_node _ _ _ E) as [_ S'].
    destruct (IH q S') as [A B]. destruct (child_range a (l ++ q) c E) as [C D].
    rewrite len_at_cons, E. lia.
  Qed.

  (* a token touching the offset below a node lies in a child that passes the filter *)
  Lemma tok_in_child p t off : TokAt p t off -> is_node_at g p = true ->
    exists i c, nth_error (kids g p) i = Some c /\ TokAt (i :: p) t off /\ hit (true_off g (i :: p)) (glen c) off = true.
  Proof.
    intros ([l ->] & Tk & S & Pos & R) Nd.
    destruct l as [|a0 l0] using rev_ind; [cbn [app] in Tk; congruence|]. clear IHl0.
    rewrite <- app_assoc in *. cbn [app] in *.
    assert (Sc : subr g (a0 :: p) <> None) by (eapply subr_prefix; exact S).
    rewrite kids_nth in Sc. destruct (nth_error (kids g p) a0) as [c|] eqn:E; [|congruence].
    exists a0, c. split; [exact E|].
    destruct (below_range l0 (a0 :: p) S) as [A B]. rewrite len_at_cons, E in B.
    split.
    - split; [exists l0; reflexivity|]. repeat split; auto; lia.
    - unfold hit. rewrite !andb_true_iff, negb_true_iff, N.eqb_neq, !N.leb_le. lia.
  Qed.

  Lemma hit_children_in : forall l idx t off k c,
    nth_error l k = Some c -> hit (t + sumN (map glen (firstn k l))) (glen c) off = true ->
    In (c, (idx + k)%nat, t + sumN (map glen (firstn k l))) (hit_children l idx t off).
  Proof.
    induction l as [|a r IH]; intros idx t off [|k] c E H; cbn [nth_error firstn map sumN hit_children] in *; try discriminate.
    - injection E as ->. rewrite N.add_0_r in *. rewrite H, Nat.add_0_r. left. reflexivity.
    - specialize (IH (S idx) (t + glen a) off k c E).
      replace (t + (glen a + sumN (map glen (firstn k r)))) with (t + glen a + sumN (map glen (firstn k r))) in * by lia.
      specialize (IH H). replace (idx + S k)%nat with (S idx + k)%nat by lia.
      destruct (hit t (glen a) off); [right|]; exact IH.
  Qed.

  (* at the left edge of a non-empty element the answer is the single token STARTING there, at the
     right edge the single token ENDING there *)
  Definition EdgeOk (s len off : N) (x : tao_res) : Prop :=
    (off = s -> exists t, x = TSingle t /\ true_off g t = off) /\
    (off = s + len -> exists t, x = TSingle t /\ true_off g t + len_at g t = off).

  Definition TaoSpec (rec : gelem -> pos -> N -> rstate -> res tao_res * rstate) (c : gelem) : Prop :=
    forall q off rs, subr g q = Some c -> Inv rs -> Known rs q -> 0 < glen c ->
      true_off g q <= off <= true_off g q + glen c ->
      exists x, fst (rec c q off rs) = Ok x /\ TaoGood q off x /\ EdgeOk (true_off g q) (glen c) off x /\ Complete q off x.

  Lemma TokAt_up i p t off : TokAt (i :: p) t off -> TokAt p t off.
  Proof.
    intros ([l ->] & A). split; [|exact A]. exists (l ++ [i]). rewrite <- app_assoc. reflexivity.
  Qed.
  Lemma TaoGood_up i p off x : TaoGood (i :: p) off x -> TaoGood p off x.
  Proof.
    destruct x as [|t|l r]; cbn; [tauto|apply TokAt_up|].
    intros (A & B & C). split; [eapply TokAt_up; eauto|]. split; [eapply TokAt_up; eauto|exact C].
  Qed.

  Definition ResGood (p : pos) (off : N) (r : res tao_res) (h : gelem * nat * N) : Prop :=
    exists x, r = Ok x /\ TaoGood p off x /\ EdgeOk (snd h) (glen (fst (fst h))) off x /\ Complete (snd (fst h) :: p) off x.

  Lemma tao_hit_true rs1 p off c i :
    Inv rs1 -> Known rs1 (i :: p) -> tao_hit rs1 p off c i = hit (true_off g (i :: p)) (glen c) off.
  Proof. intros I K. unfold tao_hit, hit. rewrite (offset_known g rs1 _ I K). reflexivity. Qed.

  Lemma tao_loop_spec rec p off rs1 : forall l pre rs,
    kids g p = pre ++ l -> Forall (TaoSpec rec) l -> Forall (TaoOk g rec) l ->
    Inv rs -> Inv rs1 ->
    (forall k c, nth_error l k = Some c -> Known rs ((length pre + k)%nat :: p) /\ Known rs1 ((length pre + k)%nat :: p)) ->
    Forall2 (ResGood p off)
            (fst (tao_loop rec p off rs1 l (length pre) rs))
            (hit_children l (length pre) (true_off g p + sumN (map glen pre)) off).
  Proof.
    induction l as [|c r IH]; intros pre rs E F G I I1 Kn; cbn [tao_loop hit_children]; [constructor|].
    inversion F as [|? ? Fc Fr]; subst. inversion G as [|? ? Gc Gr]; subst.
    assert (E2 : kids g p = (pre ++ [c]) ++ r) by (rewrite <- app_assoc; exact E).
    assert (Eo : true_off g p + sumN (map glen pre) = true_off g (length pre :: p)).
    { cbn [true_off]. rewrite E, firstn_app, Nat.sub_diag, firstn_all. cbn [firstn]. rewrite app_nil_r. reflexivity. }
    destruct (Kn 0%nat c eq_refl) as [K0 K01]. rewrite Nat.add_0_r in K0, K01.
    assert (Kn2 : forall rs', Le rs rs' -> forall k c0, nth_error r k = Some c0 ->
                  Known rs' ((length (pre ++ [c]) + k)%nat :: p) /\ Known rs1 ((length (pre ++ [c]) + k)%nat :: p)).
    { intros rs' L k c0 Ek. rewrite app_length. cbn [length].
      replace (length pre + 1 + k)%nat with (length pre + S k)%nat by lia.
      destruct (Kn (S k) c0 Ek) as [A B]. split; [eapply Known_le; eauto|exact B]. }
    assert (Step' : forall rs', Le rs rs' -> Inv rs' ->
              Forall2 (ResGood p off) (fst (tao_loop rec p off rs1 r (S (length pre)) rs'))
                      (hit_children r (S (length pre)) (true_off g p + sumN (map glen pre) + glen c) off)).
    { intros rs' L I'. specialize (IH (pre ++ [c]) rs' E2 Fr Gr I' I1 (Kn2 rs' L)).
      rewrite app_length, map_app, sumN_app in IH. cbn [length map sumN] in IH.
      replace (length pre + 1)%nat with (S (length pre)) in IH by lia.
      replace (true_off g p + (sumN (map glen pre) + (glen c + 0))) with (true_off g p + sumN (map glen pre) + glen c) in IH by lia.
      exact IH. }
    rewrite (tao_hit_true rs1 p off c (length pre) I1 K01), <- Eo.
    destruct (hit (true_off g p + sumN (map glen pre)) (glen c) off) eqn:Hh.
    - assert (S1 : subr g (length pre :: p) = Some c).
      { rewrite kids_nth, E, nth_error_app2, Nat.sub_diag; [reflexivity|lia]. }
      unfold hit in Hh. rewrite !andb_true_iff, negb_true_iff, N.eqb_neq, !N.leb_le in Hh.
      destruct Hh as [[NZ L1] L2].
      destruct (Fc (length pre :: p) off rs S1 I K0) as (x & Ex & Gx & Edge & Cx); [lia|rewrite <- Eo; lia|].
      destruct (Gc (length pre :: p) off rs S1 I K0) as (I2 & L2' & _).
      destruct (rec c (length pre :: p) off rs) as [x0 rs']. cbn [fst snd] in *. subst x0.
      specialize (Step' rs' L2' I2).
      destruct (tao_loop rec p off rs1 r (S (length pre)) rs') as [xs rs'']. cbn [fst] in *.
      constructor; [|exact Step'].
      exists x. split; [reflexivity|]. split; [apply TaoGood_up in Gx; exact Gx|]. cbn [fst snd]. rewrite Eo. split; [exact Edge|exact Cx].
    - apply Step'; [apply Le_refl|exact I].
  Qed.

  Lemma count_hits_true rs1 p off : forall l pre,
    kids g p = pre ++ l -> Inv rs1 ->
    (forall k c, nth_error l k = Some c -> Known rs1 ((length pre + k)%nat :: p)) ->
    count_hits rs1 p off l (length pre) = length (hit_children l (length pre) (true_off g p + sumN (map glen pre)) off).
  Proof.
    induction l as [|c r IH]; intros pre E I1 Kn; cbn [count_hits hit_children]; [reflexivity|].
    assert (Eo : true_off g p + sumN (map glen pre) = true_off g (length pre :: p)).
    { cbn [true_off]. rewrite E, firstn_app, Nat.sub_diag, firstn_all. cbn [firstn]. rewrite app_nil_r. reflexivity. }
    pose proof (Kn 0%nat c eq_refl) as K0. rewrite Nat.add_0_r in K0.
    rewrite (tao_hit_true rs1 p off c (length pre) I1 K0), <- Eo.
    assert (IH' := IH (pre ++ [c])). rewrite app_length, map_app, sumN_app in IH'. cbn [length map sumN] in IH'.
    replace (length pre + 1)%nat with (S (length pre)) in IH' by lia.
    replace (true_off g p + (sumN (map glen pre) + (glen c + 0))) with (true_off g p + sumN (map glen pre) + glen c) in IH' by lia.
    rewrite IH'; [|rewrite <- app_assoc; exact E|exact I1|].
    - destruct (hit _ _ _); reflexivity.
    - intros k c0 Ek. replace (S (length pre) + k)%nat with (length pre + S k)%nat by lia. apply (Kn (S k) c0 Ek).
  Qed.

  Lemma tao_of_spec e : TaoSpec tao_of e.
  Proof.
    induction e as [id k key len|id k len h cs IH] using gelem_ind'; intros p off rs S I K Pos R; cbn [tao_of glen] in *.
    - (* a non-empty token *)
      rewrite (offset_known g rs p I K).
      destruct (N.leb_spec (true_off g p) off); [|lia]. destruct (N.leb_spec off (true_off g p + len)); [|lia]. cbn [andb fst].
      exists (TSingle p). split; [reflexivity|]. split.
      + cbn. unfold TokAt. split; [exists []; reflexivity|]. unfold is_node_at, len_at. rewrite S. cbn [is_node glen].
        split; [reflexivity|]. split; [discriminate|]. lia.
      + split.
        * unfold EdgeOk. split; intros Ee; exists p; (split; [reflexivity|try (unfold len_at; rewrite S; cbn [glen]); lia]).
        * (* nothing lies below a token *)
          intros t ([l ->] & _ & St & _). cbn [tao_list]. left.
          destruct l as [|a0 l0] using rev_ind; [reflexivity|]. exfalso.
          rewrite <- app_assoc in St. cbn [app] in St. apply subr_prefix in St. rewrite kids_nth in St.
          unfold kids in St. rewrite S in St. cbn [gchildren] in St. destruct a0; apply St; reflexivity.
    - rewrite (offset_known g rs p I K).
      destruct (N.leb_spec (true_off g p) off); [|lia]. destruct (N.leb_spec off (true_off g p + len)); [|lia]. cbn [andb negb].
      destruct (N.eqb_spec len 0); [lia|].
      assert (Ek : kids g p = cs) by (unfold kids; rewrite S; reflexivity).
      assert (Nd : is_node_at g p = true) by (unfold is_node_at; rewrite S; reflexivity).
      assert (El : len = sumN (map glen cs)).
      { rewrite <- Ek, <- (len_at_sum g Hlen p Nd). unfold len_at. rewrite S. reflexivity. }
      pose proof (goa_all_ok g p cs [] rs Ek I K) as Ga. cbn [length map sumN app Nat.add] in Ga. rewrite N.add_0_r in Ga.
      set (rs1 := goa_all cs p 0 (true_off g p) rs) in *. destruct Ga as (I1 & L1 & K1).
      pose proof (count_hits_true rs1 p off cs [] Ek I1 K1) as Ch. cbn [length map sumN] in Ch. rewrite N.add_0_r in Ch.
      assert (TO : Forall (TaoOk g tao_of) cs).
      { apply Forall_forall. intros c _. apply tao_of_ok; try exact Hlen. }
      assert (Kboth : forall k0 c, nth_error cs k0 = Some c -> Known rs1 ((length (@nil gelem) + k0)%nat :: p) /\ Known rs1 ((length (@nil gelem) + k0)%nat :: p)).
      { intros k0 c Ec. split; apply (K1 k0 c Ec). }
      pose proof (tao_loop_spec tao_of p off rs1 cs [] rs1 Ek IH TO I1 I1 Kboth) as Ls.
      cbn [length map sumN] in Ls. rewrite N.add_0_r in Ls.
      destruct (hit_children_cases cs 0%nat (true_off g p) off) as [(c & i & s & Eh & Pc & Rc & Ea & Eb)|(c1 & i1 & s1 & c2 & i2 & s2 & Eh & P1 & P2 & B1 & B2 & Mid)]; [lia|lia| |].
      + rewrite Eh in Ch, Ls. cbn [length] in Ch. rewrite Ch.
        destruct (tao_loop tao_of p off rs1 cs 0 rs1) as [results rs2]. cbn [fst] in *.
        apply Forall2_one in Ls. destruct Ls as (r0 & -> & R0).
        destruct R0 as (x & -> & Gx & [Edge1 Edge2] & Cx). cbn [fst snd] in Edge1, Edge2, Cx.
        exists x. split; [destruct x; reflexivity|]. split; [exact Gx|].
        split; [split; intros Ee|].
        * apply Edge1. symmetry. apply Ea. exact Ee.
        * apply Edge2. try rewrite El in Ee. symmetry. apply Eb. exact Ee.
        * intros t Ht. destruct (tok_in_child p t off Ht Nd) as (i' & c' & Ec' & Ht' & Hh').
          rewrite Ek in Ec'. pose proof (hit_children_in cs 0%nat (true_off g p) off i' c' Ec') as Hin.
          cbn [true_off] in Hh'. rewrite Ek in Hh'. specialize (Hin Hh'). rewrite Eh in Hin.
          destruct Hin as [Hin|[]]. injection Hin as _ <- _. cbn [Nat.add] in Ht'. apply Cx. exact Ht'.
      + rewrite Eh in Ch, Ls. cbn [length] in Ch. rewrite Ch.
        destruct (tao_loop tao_of p off rs1 cs 0 rs1) as [results rs2]. cbn [fst] in *.
        apply Forall2_two in Ls. destruct Ls as (r1 & r2 & -> & R1 & R2).
        destruct R1 as (x1 & -> & G1 & [_ EdgeR] & C1). destruct R2 as (x2 & -> & G2 & [EdgeL _] & C2). cbn [fst snd] in EdgeR, EdgeL, C1, C2.
        destruct (EdgeR (eq_sym B1)) as (t1 & -> & T1).
        destruct (EdgeL (eq_sym B2)) as (t2 & -> & T2).
        exists (TBetween t1 t2). split; [reflexivity|]. split; [|split; [split; intros Ee; lia|]].
        * cbn in G1, G2 |- *. auto.
        * intros t Ht. destruct (tok_in_child p t off Ht Nd) as (i' & c' & Ec' & Ht' & Hh').
          rewrite Ek in Ec'. pose proof (hit_children_in cs 0%nat (true_off g p) off i' c' Ec') as Hin.
          cbn [true_off] in Hh'. rewrite Ek in Hh'. specialize (Hin Hh'). rewrite Eh in Hin. cbn [Nat.add] in Hin.
          cbn [tao_list]. destruct Hin as [Hin|[Hin|[]]]; injection Hin as _ <- _.
          -- left. destruct (C1 t Ht') as [E1|[]]. exact E1.
          -- right. left. destruct (C2 t Ht') as [E2|[]]. exact E2.
  Qed.

  (* token_at_offset inside its precondition never reaches the unwrap / assert / unreachable!, and
     returns: nothing for empty text; the single non-empty token touching the offset; or the two
     tokens that meet at it *)
  Theorem tao_spec rs p off e :
    Inv rs -> Known rs p -> subr g p = Some e -> is_node e = true ->
    true_off g p <= off <= true_off g p + glen e ->
    (glen e = 0 /\ fst (token_at_offset g rs p off) = Ok TNone) \/
    (0 < glen e /\ exists x, fst (token_at_offset g rs p off) = Ok x /\ TaoGood p off x /\ Complete p off x).
  Proof.
    intros I K S Nd R. unfold token_at_offset. rewrite S.
    destruct (N.eq_dec (glen e) 0) as [Z|NZ].
    - left. split; [exact Z|]. destruct e as [|id k len h cs]; [discriminate|]. cbn [tao_of glen] in *.
      rewrite (offset_known g rs p I K).
      destruct (N.leb_spec (true_off g p) off); [|lia]. destruct (N.leb_spec off (true_off g p + len)); [|lia]. cbn [andb negb].
      subst len. reflexivity.
    - right. split; [lia|]. destruct (tao_of_spec e p off rs S I K) as (x & Ex & Gx & _ & Cx); [lia|exact R|].
      exists x. auto.
  Qed.

  Theorem tao_outside rs p off e :
    Inv rs -> Known rs p -> subr g p = Some e ->
    ~ (true_off g p <= off <= true_off g p + glen e) ->
    fst (token_at_offset g rs p off) = Panic POffsetRange.
  Proof.
    intros I K S NR. unfold token_at_offset. rewrite S. destruct e as [id k key len|id k len h cs]; cbn [tao_of glen] in *;
      rewrite (offset_known g rs p I K).
    - destruct (N.leb_spec (true_off g p) off); destruct (N.leb_spec off (true_off g p + len)); cbn; try reflexivity. lia.
    - destruct (N.leb_spec (true_off g p) off); destruct (N.leb_spec off (true_off g p + len)); cbn; try reflexivity. lia.
  Qed.
End OffsetSpec.
