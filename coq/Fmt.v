(* Fmt.v — C19: display and debug output are total and faithful (syntax/node.rs write_debug /
   write_display, syntax/token.rs write_debug).  Kinds and ranges are printed by the caller's Debug
   impls; the model produces the structured content (level, position, abbreviated text). *)
From CsModel Require Import Red RedProofs Nav NavSpec Preorder TextPos Extracted.
From Coq Require Import ZifyN ZifyNat ZifyBool.

(* the first [idx] bytes of a text, if idx is a character boundary (str::is_char_boundary + slicing) *)
Fixpoint prefix_at (t : text) (idx : N) : option text :=
  if idx =? 0 then Some []
  else match t with
       | [] => None
       | c :: r => if utf8_width c <=? idx then option_map (cons c) (prefix_at r (idx - utf8_width c)) else None
       end.

Lemma prefix_at_0 t : prefix_at t 0 = Some [].
Proof. destruct t; cbn [prefix_at]; rewrite N.eqb_refl; reflexivity. Qed.

Definition ellipsis : text := [32; 46; 46; 46].      (* " ..." *)

(* first candidate cut position lo, lo+1, ... (n candidates) that is a character boundary *)
Fixpoint first_cut (t : text) (lo : N) (n : nat) : option text :=
  match n with
  | O => None
  | S m => match prefix_at t lo with Some pre => Some pre | None => first_cut t (lo + 1) m end
  end.

Section Abbrev.
  Variable thr lo hi : N.      (* token.rs: `if text.len() < thr`, `for idx in lo..hi` *)

  Definition abbrev (t : text) : res text :=
    if byte_len t <? thr then Ok t
    else match first_cut t lo (N.to_nat (hi - lo)) with
         | Some pre => Ok (pre ++ ellipsis)
         | None => Panic PUnreachable           (* unreachable!() *)
         end.

  (* every UTF-8 character is at most 4 bytes wide, so among 4 consecutive byte offsets inside a
     text one is a character boundary *)
  Lemma boundary_in_window : forall t l, l + 4 <= byte_len t ->
    prefix_at t l <> None \/ prefix_at t (l + 1) <> None \/ prefix_at t (l + 2) <> None \/ prefix_at t (l + 3) <> None.
  Proof.
    induction t as [|c r IH]; intros l L; cbn [byte_len] in L; [lia|].
    pose proof (utf8_width_bounds c) as Wb.
    destruct (N.eq_dec l 0) as [->|NZ]; [left; rewrite prefix_at_0; congruence|].
    destruct (N.le_gt_cases (utf8_width c) l) as [Le|Gt].
    - (* the first character ends at or before l: all four candidates move into the rest *)
      destruct (IH (l - utf8_width c)) as [A|[A|[A|A]]]; [lia| | | |].
      + left. cbn [prefix_at]. destruct (N.eqb_spec l 0); [lia|].
        destruct (N.leb_spec (utf8_width c) l); [|lia]. destruct (prefix_at r (l - utf8_width c)); [cbn; congruence|congruence].
      + right; left. cbn [prefix_at]. destruct (N.eqb_spec (l + 1) 0); [lia|].
        destruct (N.leb_spec (utf8_width c) (l + 1)); [|lia].
        replace (l + 1 - utf8_width c) with (l - utf8_width c + 1) by lia.
        destruct (prefix_at r (l - utf8_width c + 1)); [cbn; congruence|congruence].
      + right; right; left. cbn [prefix_at]. destruct (N.eqb_spec (l + 2) 0); [lia|].
        destruct (N.leb_spec (utf8_width c) (l + 2)); [|lia].
        replace (l + 2 - utf8_width c) with (l - utf8_width c + 2) by lia.
        destruct (prefix_at r (l - utf8_width c + 2)); [cbn; congruence|congruence].
      + right; right; right. cbn [prefix_at]. destruct (N.eqb_spec (l + 3) 0); [lia|].
        destruct (N.leb_spec (utf8_width c) (l + 3)); [|lia].
        replace (l + 3 - utf8_width c) with (l - utf8_width c + 3) by lia.
        destruct (prefix_at r (l - utf8_width c + 3)); [cbn; congruence|congruence].
    - (* l is inside the first character: its end (a boundary) is one of l+1, l+2, l+3 *)
      assert (C : utf8_width c = l + 1 \/ utf8_width c = l + 2 \/ utf8_width c = l + 3) by lia.
      assert (P : prefix_at (c :: r) (utf8_width c) <> None).
      { cbn [prefix_at]. destruct (N.eqb_spec (utf8_width c) 0); [lia|].
        rewrite N.leb_refl, N.sub_diag, prefix_at_0. cbn. congruence. }
      destruct C as [E|[E|E]]; rewrite E in P; tauto.
  Qed.

  Hypothesis Window : hi = lo + 4.
  Hypothesis Fits : lo + 4 <= thr.

  Theorem abbrev_total t : exists x, abbrev t = Ok x.
  Proof.
    unfold abbrev. destruct (N.ltb_spec (byte_len t) thr) as [_|Ge]; [eexists; reflexivity|].
    rewrite Window. replace (lo + 4 - lo) with 4 by lia. change (N.to_nat 4) with 4%nat. cbn [first_cut].
    destruct (boundary_in_window t lo) as [A|[A|[A|A]]]; [lia| | | |].
    - destruct (prefix_at t lo); [eexists; reflexivity|congruence].
    - destruct (prefix_at t lo); [eexists; reflexivity|].
      destruct (prefix_at t (lo + 1)); [eexists; reflexivity|congruence].
    - destruct (prefix_at t lo); [eexists; reflexivity|].
      destruct (prefix_at t (lo + 1)); [eexists; reflexivity|].
      replace (lo + 1 + 1) with (lo + 2) by lia.
      destruct (prefix_at t (lo + 2)); [eexists; reflexivity|congruence].
    - destruct (prefix_at t lo); [eexists; reflexivity|].
      destruct (prefix_at t (lo + 1)); [eexists; reflexivity|].
      replace (lo + 1 + 1) with (lo + 2) by lia.
      destruct (prefix_at t (lo + 2)); [eexists; reflexivity|].
      replace (lo + 2 + 1) with (lo + 3) by lia.
      destruct (prefix_at t (lo + 3)); [eexists; reflexivity|congruence].
  Qed.

  Lemma prefix_at_prefix : forall t idx pre, prefix_at t idx = Some pre -> exists rest, t = pre ++ rest /\ byte_len pre = idx.
  Proof.
    induction t as [|c r IH]; intros idx pre; cbn [prefix_at].
    - destruct (N.eqb_spec idx 0) as [->|]; [intros [= <-]; exists []; auto|discriminate].
    - destruct (N.eqb_spec idx 0) as [->|NZ]; [intros [= <-]; exists (c :: r); auto|].
      destruct (N.leb_spec (utf8_width c) idx); [|discriminate].
      destruct (prefix_at r (idx - utf8_width c)) as [p0|] eqn:E; [|discriminate]. intros [= <-].
      destruct (IH _ _ E) as (rest & -> & L). exists rest. split; [reflexivity|]. cbn [byte_len]. lia.
  Qed.

  (* short texts are shown in full; long ones as a prefix of 21..24 bytes followed by " ..." *)
  Theorem abbrev_faithful t x :
    abbrev t = Ok x ->
    (byte_len t < thr /\ x = t) \/
    (thr <= byte_len t /\ exists pre rest, t = pre ++ rest /\ x = pre ++ ellipsis /\ lo <= byte_len pre < hi).
  Proof.
    unfold abbrev. destruct (N.ltb_spec (byte_len t) thr) as [Lt|Ge]; [intros [= <-]; left; auto|].
    destruct (first_cut t lo (N.to_nat (hi - lo))) as [pre|] eqn:F; [|discriminate]. intros [= <-]. right. split; [exact Ge|].
    assert (G : forall n l, first_cut t l n = Some pre -> exists rest, t = pre ++ rest /\ l <= byte_len pre < l + N.of_nat n).
    { induction n as [|m IHm]; intros l; cbn [first_cut]; [discriminate|].
      destruct (prefix_at t l) as [p0|] eqn:P.
      - intros [= <-]. destruct (prefix_at_prefix _ _ _ P) as (rest & E & L). exists rest. split; [exact E|lia].
      - intros E. destruct (IHm _ E) as (rest & E2 & L). exists rest. split; [exact E2|lia]. }
    destruct (G _ _ F) as (rest & E & L). exists pre, rest. split; [exact E|]. split; [reflexivity|]. lia.
  Qed.
End Abbrev.

(* the constants of the current source satisfy the side conditions *)
Lemma extracted_window_ok : abbrev_hi = abbrev_lo + 4 /\ abbrev_lo + 4 <= abbrev_len.
Proof. vm_compute. split; [reflexivity|discriminate]. Qed.

(* ---------------------------------------------------------------------------------------- *)
(* recursive debug: one line per element, indented by its depth (node.rs write_debug) *)
Fixpoint debug_lines (l : list wev) (level : nat) : list (nat * pos) * nat :=
  match l with
  | [] => ([], level)
  | Enter p :: r => let (ls, lv) := debug_lines r (S level) in ((level, p) :: ls, lv)
  | Leave _ :: r => debug_lines r (Nat.pred level)
  end.

(* display: the texts of the tokens entered, in order (node.rs write_display) *)
Definition display_of (static_text : kind -> option text) (strs : list text) (g : gelem) (l : list wev) : text :=
  flat_map (fun ev => match ev with
                      | Enter p => match subr g p with
                                   | Some (GTok id k key len) => gtext static_text strs (GTok id k key len)
                                   | _ => []
                                   end
                      | Leave _ => []
                      end) l.

Section FmtSpec.
  Variable g : gelem.

  (* lines of a sub-tree: the element at its level, then its children one level deeper, in order *)
  Section L.
    Variable rec : gelem -> pos -> nat -> list (nat * pos).
    Variable p : pos.
    Fixpoint lines_loop (l : list gelem) (i : nat) (level : nat) : list (nat * pos) :=
      match l with [] => [] | c :: r => rec c (i :: p) level ++ lines_loop r (S i) level end.
  End L.
  Fixpoint lines_of (e : gelem) (p : pos) (level : nat) : list (nat * pos) :=
    match e with
    | GTok _ _ _ _ => [(level, p)]
    | GNode _ _ _ _ cs => (level, p) :: lines_loop lines_of p cs 0 (S level)
    end.

  Lemma debug_lines_app_loop p : forall l i rest level,
    Forall (fun c => forall q rest level,
                debug_lines (events_of false c q ++ rest) level =
                (lines_of c q level ++ fst (debug_lines rest level), snd (debug_lines rest level))) l ->
    debug_lines (ev_loop false (events_of false) p l i ++ rest) level =
    (lines_loop lines_of p l i level ++ fst (debug_lines rest level), snd (debug_lines rest level)).
  Proof.
    induction l as [|c r IH]; intros i rest level F; cbn [ev_loop lines_loop app].
    - destruct (debug_lines rest level); reflexivity.
    - inversion F as [|? ? Fc Fr]; subst. unfold wanted. cbn [negb orb]. rewrite <- !app_assoc, Fc, (IH (S i) rest level Fr).
      cbn [fst snd]. rewrite <- ?app_assoc. reflexivity.
  Qed.

  Theorem debug_lines_events e : forall q rest level,
    debug_lines (events_of false e q ++ rest) level =
    (lines_of e q level ++ fst (debug_lines rest level), snd (debug_lines rest level)).
  Proof.
    induction e as [id k key len|id k len h cs IH] using gelem_ind'; intros q rest level.
    - cbn. destruct (debug_lines rest level); reflexivity.
    - cbn [events_of app debug_lines lines_of]. rewrite <- app_assoc, (debug_lines_app_loop q cs 0 _ (S level) IH).
      cbn [app debug_lines Nat.pred fst snd]. destruct (debug_lines rest level). reflexivity.
  Qed.

  (* the recursive debug form lists every element of the sub-tree once, in source order, indented by
     its depth, and the final `assert_eq!(level, 0)` holds *)
  Theorem debug_recursive_spec rs p e :
    subr g p = Some e ->
    debug_lines (fst (preorder g false rs p)) 0 = (lines_of e p 0, 0%nat).
  Proof.
    intros S. rewrite (preorder_spec g false rs p e S). rewrite <- (app_nil_r (events_of false e p)).
    rewrite debug_lines_events. cbn. rewrite app_nil_r. reflexivity.
  Qed.

  (* display: concatenating the texts of the tokens entered gives exactly the text of the sub-tree *)
  Variable static_text : kind -> option text.
  Variable strs : list text.
  Notation gt := (gtext static_text strs).
  Notation disp := (display_of static_text strs g).

  Lemma display_app a b0 : disp (a ++ b0) = disp a ++ disp b0.
  Proof. unfold display_of. apply flat_map_app. Qed.

  Lemma display_loop q : forall l pre,
    kids g q = pre ++ l ->
    Forall (fun c => forall p, subr g p = Some c -> disp (events_of false c p) = gt c) l ->
    disp (ev_loop false (events_of false) q l (length pre)) = flat_map gt l.
  Proof.
    induction l as [|c r IH]; intros pre E F; cbn [ev_loop flat_map]; [reflexivity|].
    inversion F as [|? ? Fc Fr]; subst. unfold wanted. cbn [negb orb]. rewrite display_app.
    assert (Sc : subr g (length pre :: q) = Some c).
    { rewrite kids_nth, E, nth_error_app2, Nat.sub_diag; [reflexivity|lia]. }
    rewrite (Fc _ Sc). f_equal.
    specialize (IH (pre ++ [c])). rewrite app_length in IH. cbn [length] in IH.
    replace (length pre + 1)%nat with (S (length pre)) in IH by lia.
    apply IH; [rewrite <- app_assoc; exact E|exact Fr].
  Qed.

  Theorem display_events e : forall p, subr g p = Some e -> disp (events_of false e p) = gt e.
  Proof.
    induction e as [id k key len|id k len h cs IH] using gelem_ind'; intros p S.
    - cbn [events_of display_of flat_map]. rewrite S. rewrite !app_nil_r. reflexivity.
    - cbn [events_of]. change (Enter p :: ev_loop false (events_of false) p cs 0 ++ [Leave p])
        with ([Enter p] ++ ev_loop false (events_of false) p cs 0 ++ [Leave p]).
      rewrite !display_app.
      assert (Ek : kids g p = cs) by (unfold kids; rewrite S; reflexivity).
      pose proof (display_loop p cs [] Ek IH) as DL. cbn [length] in DL. rewrite DL. cbn [display_of flat_map]. rewrite S. cbn [app]. rewrite !app_nil_r.
      symmetry. apply gtext_node.
  Qed.

  Theorem display_is_text rs p e :
    subr g p = Some e -> disp (fst (preorder g false rs p)) = gt e.
  Proof. intros S. rewrite (preorder_spec g false rs p e S). apply display_events. exact S. Qed.
End FmtSpec.
