(* Fault.v — C20: a failed interning leaves the builder intact.
   In token() (builder.rs) the interner is consulted BEFORE the token cache and the element stack
   are touched; an interner error surfaces as a panic (traits.rs get_or_intern).  The model's
   OTokenFail is that transcription; the theorems below say what it implies for whole histories. *)
From CsModel Require Import BuilderSpec BuilderProofs.

Section Fault.
  Variable static_text : kind -> option text.
  Variable H : list hw -> N.
  Variable threshold : nat.
  Variable mode : lookup_mode.
  Variable debug : bool.
  Variable revert_fixed : bool.

  Notation b_step := (b_step static_text H threshold mode debug revert_fixed).
  Notation b_run := (b_run static_text H threshold mode debug revert_fixed).

  (* the token at which the interner reports an error *)
  Definition is_fault (o : bop) : bool :=
    match o with
    | OTokenFail k _ => match static_text k with Some _ => false | None => true end
    | _ => false
    end.

  (* a kind with static text never reaches the interner: the "failing" token is an ordinary one *)
  Definition norm (o : bop) : bop :=
    match o with OTokenFail k t => OToken k t | _ => o end.

  Definition erase (ops : list bop) : list bop := map norm (filter (fun o => negb (is_fault o)) ops).

  (* ---- the failing call itself: a panic, and nothing else changes ---- *)
  Theorem intern_fail_noop s regs k t :
    static_text k = None ->
    b_step s regs (OTokenFail k t) = (Panic PIntern, regs).
  Proof. intros E. cbn [Builder.b_step]. rewrite E. reflexivity. Qed.

  Lemma step_norm s regs o : is_fault o = false -> b_step s regs (norm o) = b_step s regs o.
  Proof.
    destruct o as [k|k t|k t|k| | |i k|i]; cbn [norm is_fault Builder.b_step]; try reflexivity.
    destruct (static_text k); [reflexivity|discriminate].
  Qed.

  (* ---- fault erasure: catching each panic and carrying on yields exactly the state (builder
          stacks, both caches, interner) of the history with the failed tokens never offered ---- *)
  Theorem fault_erasure ops : forall s regs,
    fst (b_run s regs ops) = fst (b_run s regs (erase ops)).
  Proof.
    induction ops as [|o r IH]; intros s regs; [reflexivity|].
    unfold erase. cbn [filter]. destruct (is_fault o) eqn:F; cbn [negb map].
    - (* the faulting token: panic, same state, same registers *)
      destruct o as [k|k t|k t|k| | |i k|i]; cbn [is_fault] in F; try discriminate.
      destruct (static_text k) eqn:ST; [discriminate|].
      cbn [Builder.b_run]. rewrite (intern_fail_noop s regs k t ST).
      specialize (IH s regs). destruct (b_run s regs r) as [sf tr]. exact IH.
    - cbn [Builder.b_run]. rewrite (step_norm s regs o F).
      destruct (b_step s regs o) as [rs regs'].
      destruct rs as [s'|p].
      + specialize (IH s' regs'). fold (erase r).
        destruct (b_run s' regs' r) as [sf tr]. destruct (b_run s' regs' (erase r)) as [sf' tr']. exact IH.
      + specialize (IH s regs'). fold (erase r).
        destruct (b_run s regs' r) as [sf tr]. destruct (b_run s regs' (erase r)) as [sf' tr']. exact IH.
  Qed.

  (* the trace of the faulty history is the trace of the erased one with a PIntern inserted at
     each fault *)
  Fixpoint weave (ops : list bop) (tr : list (option panic)) : list (option panic) :=
    match ops with
    | [] => []
    | o :: r => if is_fault o then Some PIntern :: weave r tr
                else match tr with x :: tr' => x :: weave r tr' | [] => [] end
    end.

  Theorem fault_trace ops : forall s regs,
    snd (b_run s regs ops) = weave ops (snd (b_run s regs (erase ops))).
  Proof.
    induction ops as [|o r IH]; intros s regs; [reflexivity|].
    unfold erase. cbn [filter weave]. destruct (is_fault o) eqn:F; cbn [negb map].
    - destruct o as [k|k t|k t|k| | |i k|i]; cbn [is_fault] in F; try discriminate.
      destruct (static_text k) eqn:ST; [discriminate|].
      cbn [Builder.b_run]. rewrite (intern_fail_noop s regs k t ST).
      specialize (IH s regs). fold (erase r).
      destruct (b_run s regs r) as [sf tr]. cbn [snd] in *. rewrite IH. reflexivity.
    - cbn [Builder.b_run]. rewrite (step_norm s regs o F).
      destruct (b_step s regs o) as [rs regs'].
      destruct rs as [s'|p].
      + specialize (IH s' regs'). fold (erase r).
        destruct (b_run s' regs' r) as [sf tr]. destruct (b_run s' regs' (erase r)) as [sf' tr'].
        cbn [snd] in *. rewrite IH. reflexivity.
      + specialize (IH s regs'). fold (erase r).
        destruct (b_run s regs' r) as [sf tr]. destruct (b_run s regs' (erase r)) as [sf' tr'].
        cbn [snd] in *. rewrite IH. reflexivity.
  Qed.
End Fault.

(* ---- with the builder-refinement theorem: the tree eventually finished is the tree of the
        remaining events, and the cache stays sound for later builds ---- *)
Section FaultTree.
  Variable static_text : kind -> option text.
  Variable H : list hw -> N.
  Variable threshold : nat.
  Variable debug : bool.

  Notation b_run := (b_run static_text H threshold HeadAndChildren debug true).
  Notation b_run_strict := (b_run_strict static_text H threshold HeadAndChildren debug true).
  Notation b_step := (b_step static_text H threshold HeadAndChildren debug true).

  Lemma event_step_regs s regs o :
    WfEvent static_text o -> b_step s regs o = (fst (b_step s [] o), regs).
  Proof.
    destruct o as [k|k t|k t|k| | |i k|i]; cbn [WfEvent]; try contradiction; intros _; reflexivity.
  Qed.

  Lemma strict_run ops : forall s regs s',
    Forall (WfEvent static_text) ops -> b_run_strict s ops = Ok s' -> fst (b_run s regs ops) = s'.
  Proof.
    induction ops as [|o r IH]; intros s regs s' We E; cbn [Builder.b_run_strict Builder.b_run] in *.
    - injection E as <-. reflexivity.
    - inversion We as [|? ? We1 We2]; subst. rewrite (event_step_regs s regs o We1).
      destruct (fst (b_step s [] o)) as [s1|p]; [|discriminate].
      specialize (IH s1 regs s' We2 E). destruct (b_run s1 regs r) as [sf tr]. exact IH.
  Qed.

  Theorem fault_erasure_tree c ops t :
    CacheInv static_text H c ->
    Forall (WfEvent static_text) (erase static_text ops) ->
    parse static_text (erase static_text ops) = Some t ->
    exists g c', b_finish (fst (b_run (new_builder c) [] ops)) = Ok (g, c') /\
      denote static_text (c_strs c') g = t /\ WfGreen static_text H (c_strs c') g /\
      CacheInv static_text H c'.
  Proof.
    intros CI We P.
    destruct (build_faithful static_text H threshold debug c _ t CI We P) as (g & c' & B & D & W & CI' & _).
    unfold Builder.build in B.
    destruct (b_run_strict (new_builder c) (erase static_text ops)) as [s'|p] eqn:E; [|discriminate].
    cbn [res_bind] in B.
    rewrite (fault_erasure static_text H threshold HeadAndChildren debug true ops (new_builder c) []).
    rewrite (strict_run _ _ [] _ We E). exists g, c'. auto.
  Qed.
End FaultTree.
