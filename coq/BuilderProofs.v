(* BuilderProofs.v — C01/C04: the builder refines the stack parser, for every hash function,
   every starting cache, every static-text table, debug or release. *)
From CsModel Require Import BuilderSpec.

Lemma find_index_some {A} (p : A -> bool) l i :
  find_index p l = Some i -> exists x, nth_error l i = Some x /\ p x = true.
Proof.
  revert i; induction l as [|a r IH]; cbn; intros i; [discriminate|].
  destruct (p a) eqn:E.
  - intros [= <-]. exists a; auto.
  - destruct (find_index p r) as [j|]; cbn; [|discriminate]. intros [= <-].
    destruct (IH j eq_refl) as (x & Hx & Px). exists x; auto.
Qed.

Lemma find_index_none {A} (p : A -> bool) l :
  find_index p l = None -> forall x, In x l -> p x = false.
Proof.
  induction l as [|a r IH]; cbn; intros E x Hin; [tauto|].
  destruct (p a) eqn:Pa; [discriminate|].
  destruct (find_index p r); cbn in E; [discriminate|].
  destruct Hin as [<-|Hin]; auto.
Qed.

Section Proofs.
  Variable static_text : kind -> option text.
  Variable H : list hw -> N.
  Variable threshold : nat.
  Variable debug : bool.

  Notation WfG := (WfGreen static_text H).
  Notation WfGs := (WfGreens static_text H).
  Notation den := (denote static_text).
  Notation cache_node := (cache_node H threshold HeadAndChildren).
  Notation b_step := (b_step static_text H threshold HeadAndChildren debug true).
  Notation b_run_strict := (b_run_strict static_text H threshold HeadAndChildren debug true).
  Notation build := (build static_text H threshold HeadAndChildren debug true).

  (* ---- structural equality implies equal denotation (no well-formedness needed) ---- *)
  Lemma geq_denote strs a : forall b, geq a b = true -> den strs a = den strs b.
  Proof.
    induction a as [i k key l | i k l h cs IH] using gelem_ind'; intros [i' k' key' l' | i' k' l' h' cs'];
      try (cbn; discriminate).
    - cbn [geq]. rewrite !andb_true_iff, !N.eqb_eq, optN_eqb_eq. intros [[-> ->] ->]. reflexivity.
    - rewrite geq_node_unfold, !andb_true_iff, !N.eqb_eq. intros [[[-> _] _] G].
      cbn [denote]. f_equal.
      revert cs' G. induction IH as [|c r Hc Hr IHr]; intros [|c' r']; cbn [geq_list map]; try discriminate.
      + reflexivity.
      + rewrite andb_true_iff. intros [G1 G2]. f_equal; [apply Hc; exact G1 | apply IHr; exact G2].
  Qed.

  Lemma geq_list_denote strs cs cs' : geq_list cs cs' = true -> map (den strs) cs = map (den strs) cs'.
  Proof.
    revert cs'; induction cs as [|c r IH]; intros [|c' r']; cbn; try discriminate; [reflexivity|].
    rewrite andb_true_iff. intros [G1 G2]. f_equal; [apply geq_denote; exact G1 | apply IH; exact G2].
  Qed.

  (* ---- growing the interner table does not disturb existing elements ---- *)
  Lemma resolve_ext strs ext i t : resolve strs i = Some t -> resolve (strs ++ ext) i = Some t.
  Proof.
    rewrite !resolve_eq. intros E. rewrite nth_error_app1; [exact E|].
    apply nth_error_Some. congruence.
  Qed.

  Lemma wf_ext strs ext g : WfG strs g -> WfG (strs ++ ext) g /\ den (strs ++ ext) g = den strs g.
  Proof.
    induction g as [i k key l | i k l h cs IH] using gelem_ind'.
    - cbn [WfGreen denote]. unfold tok_text. destruct (static_text k) as [st|].
      + intros W; split; [exact W|reflexivity].
      + intros (j & t & -> & R & L). split.
        * exists j, t. split; [reflexivity|]. split; [apply resolve_ext; exact R|exact L].
        * rewrite R, (resolve_ext _ ext _ _ R). reflexivity.
    - rewrite !WfGreen_node. intros (L & Hh & W).
      assert (A : WfGs (strs ++ ext) cs /\ map (den (strs ++ ext)) cs = map (den strs) cs).
      { clear L Hh. induction IH as [|c r Hc Hr IHr]; cbn [WfGreens map]; [split; [exact I|reflexivity]|].
        cbn [WfGreens] in W. destruct W as [Wc Wr]. destruct (Hc Wc) as [A1 A2].
        destruct (IHr Wr) as [B1 B2]. split; [split; assumption|]. rewrite A2, B2. reflexivity. }
      destruct A as [A1 A2]. split; [auto|]. cbn [denote]. rewrite A2. reflexivity.
  Qed.

  Lemma wfs_ext strs ext cs : WfGs strs cs -> WfGs (strs ++ ext) cs /\ map (den (strs ++ ext)) cs = map (den strs) cs.
  Proof.
    induction cs as [|c r IH]; cbn [WfGreens map]; [split; [exact I|reflexivity]|].
    intros [Wc Wr]. destruct (wf_ext strs ext c Wc) as [A1 A2]. destruct (IH Wr) as [B1 B2].
    split; [split; assumption|]. rewrite A2, B2. reflexivity.
  Qed.

  (* ---- the interner ---- *)
  Lemma intern_spec strs t key strs' :
    intern strs t = (key, strs') ->
    exists ext, strs' = strs ++ ext /\ resolve strs' key = Some t.
  Proof.
    unfold intern. destruct (find_index (text_eqb t) strs) as [i|] eqn:F.
    - intros [= <- <-]. exists []. rewrite app_nil_r. split; [reflexivity|].
      destruct (find_index_some _ _ _ F) as (x & Hx & Px). apply text_eqb_eq in Px. subst x.
      rewrite resolve_eq. rewrite Nat2N.id. exact Hx.
    - intros [= <- <-]. exists [t]. split; [reflexivity|].
      rewrite resolve_eq. rewrite Nat2N.id, nth_error_app2, Nat.sub_diag; [reflexivity|lia].
  Qed.

  (* ---- cache invariant ---- *)
  Definition TokOk (strs : list text) (e : tokdata * gelem) : Prop :=
    exists id, snd e = GTok id (fst (fst (fst e))) (snd (fst (fst e))) (snd (fst e)) /\ WfG strs (snd e).
  Definition NodeOk (strs : list text) (g : gelem) : Prop := is_node g = true /\ WfG strs g.
  Definition CacheInv (c : cache) : Prop :=
    Forall (TokOk (c_strs c)) (c_tokens c) /\ Forall (NodeOk (c_strs c)) (c_nodes c).

  Lemma CacheInv_empty : CacheInv empty_cache.
  Proof. split; constructor. Qed.

  Lemma CacheInv_ext c ext :
    CacheInv c -> CacheInv (mkCache (c_next c) (c_tokens c) (c_nodes c) (c_strs c ++ ext)).
  Proof.
    intros [T Nn]. split; cbn [c_tokens c_nodes c_strs].
    - eapply Forall_impl; [|exact T]. intros e (id & E & W). exists id. split; [exact E|].
      apply wf_ext; exact W.
    - eapply Forall_impl; [|exact Nn]. intros g (Nd & W). split; [exact Nd|]. apply wf_ext; exact W.
  Qed.

  Lemma tokdata_eqb_eq a b : tokdata_eqb a b = true -> a = b.
  Proof.
    destruct a as [[k key] l], b as [[k' key'] l']. cbn.
    rewrite !andb_true_iff, !N.eqb_eq, optN_eqb_eq. intros [[-> ->] ->]. reflexivity.
  Qed.

  Lemma cache_token_sound c k key len g c' :
    CacheInv c -> WfG (c_strs c) (GTok 0 k key len) ->
    cache_token c k key len = (g, c') ->
    (exists id, g = GTok id k key len) /\ CacheInv c' /\ c_strs c' = c_strs c.
  Proof.
    intros [T Nn] W. unfold cache_token.
    destruct (find _ (c_tokens c)) as [e|] eqn:F.
    - intros [= <- <-]. apply find_some in F. destruct F as [Hin E].
      apply tokdata_eqb_eq in E. destruct (proj1 (Forall_forall _ _) T e Hin) as (id & Es & _).
      rewrite E in Es. cbn in Es. split; [exists id; exact Es|]. split; [split; assumption|reflexivity].
    - intros [= <- <-]. split; [eexists; reflexivity|]. split; [|reflexivity].
      split; cbn [c_tokens c_nodes c_strs]; [|exact Nn].
      apply Forall_app. split; [exact T|]. constructor; [|constructor].
      exists (c_next c). cbn. split; [reflexivity|exact W].
  Qed.

  Lemma cache_node_sound c k cs g c' :
    CacheInv c -> WfGs (c_strs c) cs ->
    cache_node c k cs = (g, c') ->
    den (c_strs c) g = SNode k (map (den (c_strs c)) cs) /\ is_node g = true /\
    WfG (c_strs c) g /\ CacheInv c' /\ c_strs c' = c_strs c.
  Proof.
    intros [T Nn] W. unfold Builder.cache_node.
    assert (Fresh : forall id, WfG (c_strs c) (GNode id k (sumN (map glen cs)) (H (map hw_of cs)) cs)).
    { intros id. apply WfGreen_node. auto. }
    destruct (length cs <=? threshold)%nat.
    - destruct (find _ (c_nodes c)) as [g0|] eqn:F.
      + intros [= <- <-]. apply find_some in F. destruct F as [Hin M].
        destruct (proj1 (Forall_forall _ _) Nn g0 Hin) as [Nd Wg].
        unfold node_matches in M. destruct g0 as [|i k' len' h' cs']; [discriminate|].
        rewrite !andb_true_iff, !N.eqb_eq in M. destruct M as [[[-> _] _] G].
        split; [cbn [denote]; f_equal; apply geq_list_denote; exact G|].
        split; [reflexivity|]. split; [exact Wg|]. split; [split; assumption|reflexivity].
      + intros [= <- <-]. split; [reflexivity|]. split; [reflexivity|]. split; [apply Fresh|].
        split; [|reflexivity]. split; cbn [c_tokens c_nodes c_strs]; [exact T|].
        apply Forall_app. split; [exact Nn|]. constructor; [|constructor]. split; [reflexivity|apply Fresh].
    - intros [= <- <-]. split; [reflexivity|]. split; [reflexivity|]. split; [apply Fresh|].
      split; [|reflexivity]. split; assumption.
  Qed.

  (* ---------------------------------------------------------------------------------- *)
  (* the abstraction relation between builder states and parser states *)
  Fixpoint flat (frames : list (kind * list stree)) (base : list stree) : list stree :=
    match frames with [] => base | (k, cs) :: fr => cs ++ flat fr base end.
  Fixpoint parents_of (frames : list (kind * list stree)) (base : list stree) : list (kind * nat) :=
    match frames with [] => [] | (k, cs) :: fr => (k, length (flat fr base)) :: parents_of fr base end.

  Definition bstrs (s : bstate) : list text := c_strs (b_cache s).

  Definition Rel (s : bstate) (ps : pstate) : Prop :=
    CacheInv (b_cache s) /\ WfGs (bstrs s) (b_children s) /\
    b_parents s = parents_of (fst ps) (snd ps) /\
    map (den (bstrs s)) (b_children s) = flat (fst ps) (snd ps).

  Lemma WfGs_Forall strs l : WfGs strs l <-> Forall (WfG strs) l.
  Proof.
    induction l as [|c r IH]; cbn [WfGreens]; [split; [constructor|auto]|].
    rewrite IH. split; [intros [A B]; constructor; assumption | intros F; inversion F; auto].
  Qed.

  Lemma flat_push ps x : flat (fst (p_push ps x)) (snd (p_push ps x)) = x :: flat (fst ps) (snd ps).
  Proof. destruct ps as [[|[k cs] fr] base]; reflexivity. Qed.

  Lemma parents_push ps x : parents_of (fst (p_push ps x)) (snd (p_push ps x)) = parents_of (fst ps) (snd ps).
  Proof. destruct ps as [[|[k cs] fr] base]; reflexivity. Qed.

  Lemma rel_push s ps c' ext g x :
    Rel s ps -> CacheInv c' -> c_strs c' = bstrs s ++ ext -> WfG (c_strs c') g -> den (c_strs c') g = x ->
    Rel (push_child s c' g) (p_push ps x).
  Proof.
    intros (CI & W & EP & EC) CI' Es Wg Dg. unfold Rel, push_child, bstrs. cbn [b_cache b_parents b_children].
    destruct (wfs_ext _ ext _ W) as [W' D']. fold (bstrs s) in W', D'. rewrite <- Es in W', D'.
    split; [exact CI'|]. split; [cbn [WfGreens]; auto|].
    split; [rewrite parents_push; exact EP|].
    rewrite flat_push. cbn [map]. rewrite Dg, D', EC. reflexivity.
  Qed.

  Lemma step_refines s ps o ps' :
    Rel s ps -> WfEvent static_text o -> p_step static_text ps o = Some ps' ->
    exists s', fst (b_step s [] o) = Ok s' /\ Rel s' ps' /\ exists ext, bstrs s' = bstrs s ++ ext.
  Proof.
    intros R We E. destruct o as [k|k t|k t|k| | |i k|i]; cbn [p_step] in E; try discriminate;
      cbn [Builder.b_step fst].
    - (* start_node *)
      injection E as <-. eexists; split; [reflexivity|]. split; [|exists []; rewrite app_nil_r; reflexivity].
      destruct R as (CI & W & EP & EC). unfold Rel, b_start_node, bstrs in *. cbn [b_cache b_parents b_children fst snd].
      split; [exact CI|]. split; [exact W|]. split; [|exact EC].
      cbn [parents_of]. rewrite <- EC, map_length, EP. reflexivity.
    - (* token *)
      injection E as <-. unfold b_token. cbn [WfEvent] in We.
      destruct (static_text k) as [st|] eqn:ST.
      + subst t. rewrite text_eqb_refl. cbn [negb]. rewrite andb_false_r.
        destruct (cache_token (b_cache s) k None (byte_len st)) as [g c] eqn:CT.
        assert (W0 : WfG (bstrs s) (GTok 0 k None (byte_len st))).
        { cbn [WfGreen]. rewrite ST. auto. }
        destruct R as (CI & R'). pose proof (cache_token_sound _ _ _ _ _ _ CI W0 CT) as ((id & ->) & CI' & Es).
        eexists; split; [reflexivity|]. split; [|exists []; rewrite app_nil_r; exact Es].
        eapply (rel_push s ps c [] _ _ (conj CI R')); [exact CI'|rewrite app_nil_r; exact Es| |].
        * rewrite Es. cbn [WfGreen]. rewrite ST. auto.
        * cbn [denote]. unfold tok_text. rewrite ST. reflexivity.
      + destruct (intern (c_strs (b_cache s)) t) as [key strs'] eqn:IN.
        destruct (intern_spec _ _ _ _ IN) as (ext & -> & RS).
        destruct R as (CI & R').
        pose proof (CacheInv_ext _ ext CI) as CI1.
        set (c1 := mkCache (c_next (b_cache s)) (c_tokens (b_cache s)) (c_nodes (b_cache s)) (c_strs (b_cache s) ++ ext)) in *.
        destruct (cache_token c1 k (Some key) (byte_len t)) as [g c] eqn:CT.
        assert (W0 : WfG (c_strs c1) (GTok 0 k (Some key) (byte_len t))).
        { cbn [WfGreen]. rewrite ST. exists key, t. auto. }
        pose proof (cache_token_sound _ _ _ _ _ _ CI1 W0 CT) as ((id & ->) & CI' & Es).
        eexists; split; [reflexivity|]. split; [|exists ext; exact Es].
        eapply (rel_push s ps c ext _ _ (conj CI R')); [exact CI'|exact Es| |].
        * rewrite Es. cbn [WfGreen]. rewrite ST. exists key, t. auto.
        * cbn [denote]. unfold tok_text. rewrite ST, Es. cbn [c1 c_strs]. rewrite RS. reflexivity.
    - (* static_token *)
      unfold b_static_token. destruct (static_text k) as [st|] eqn:ST; [|discriminate].
      injection E as <-.
      destruct (cache_token (b_cache s) k None (byte_len st)) as [g c] eqn:CT.
      assert (W0 : WfG (bstrs s) (GTok 0 k None (byte_len st))).
      { cbn [WfGreen]. rewrite ST. auto. }
      destruct R as (CI & R'). pose proof (cache_token_sound _ _ _ _ _ _ CI W0 CT) as ((id & ->) & CI' & Es).
      eexists; split; [reflexivity|]. split; [|exists []; rewrite app_nil_r; exact Es].
      eapply (rel_push s ps c [] _ _ (conj CI R')); [exact CI'|rewrite app_nil_r; exact Es| |].
      * rewrite Es. cbn [WfGreen]. rewrite ST. auto.
      * cbn [denote]. unfold tok_text. rewrite ST. reflexivity.
    - (* finish_node *)
      destruct ps as [[|[k cs] fr] base]; [discriminate|]. injection E as <-.
      destruct R as (CI & W & EP & EC). cbn [fst snd parents_of flat] in EP, EC.
      unfold Builder.b_finish_node. rewrite EP.
      assert (Len : length (b_children s) = (length cs + length (flat fr base))%nat).
      { rewrite <- (map_length (den (bstrs s))), EC, app_length. reflexivity. }
      destruct (Nat.leb_spec (length (flat fr base)) (length (b_children s))) as [_|L]; [|lia].
      replace (length (b_children s) - length (flat fr base))%nat with (length cs) by lia.
      destruct (cache_node (b_cache s) k (rev (firstn (length cs) (b_children s)))) as [g c] eqn:CN.
      assert (Wsplit : WfGs (bstrs s) (firstn (length cs) (b_children s)) /\ WfGs (bstrs s) (skipn (length cs) (b_children s))).
      { rewrite !WfGs_Forall. apply Forall_app. rewrite firstn_skipn. apply WfGs_Forall. exact W. }
      destruct Wsplit as [W1 W2].
      assert (W1r : WfGs (bstrs s) (rev (firstn (length cs) (b_children s)))).
      { rewrite WfGs_Forall in *. apply Forall_rev. exact W1. }
      destruct (cache_node_sound _ _ _ _ _ CI W1r CN) as (Dg & Nd & Wg & CI' & Es).
      assert (D1 : map (den (bstrs s)) (firstn (length cs) (b_children s)) = cs).
      { rewrite <- firstn_map, EC, firstn_app, Nat.sub_diag, firstn_all, firstn_O, app_nil_r. reflexivity. }
      assert (D2 : map (den (bstrs s)) (skipn (length cs) (b_children s)) = flat fr base).
      { rewrite <- skipn_map, EC, skipn_app, Nat.sub_diag, skipn_all. reflexivity. }
      eexists; split; [reflexivity|]. split; [|exists []; rewrite app_nil_r; exact Es].
      unfold Rel, bstrs. cbn [b_cache b_parents b_children]. rewrite Es. fold (bstrs s).
      split; [exact CI'|]. split; [cbn [WfGreens]; auto|].
      split; [destruct fr as [|[k0 cs0] fr0]; reflexivity|].
      transitivity (SNode k (rev cs) :: flat fr base); [|destruct fr as [|[k0 cs0] fr0]; reflexivity].
      cbn [map]. fold (bstrs s) in Dg. rewrite Dg, D2, map_rev, D1. reflexivity.
  Qed.

  Theorem run_refines ops : forall s ps ps',
    Rel s ps -> Forall (WfEvent static_text) ops -> p_run static_text ps ops = Some ps' ->
    exists s', b_run_strict s ops = Ok s' /\ Rel s' ps' /\ exists ext, bstrs s' = bstrs s ++ ext.
  Proof.
    induction ops as [|o r IH]; intros s ps ps' R We E; cbn [p_run Builder.b_run_strict] in *.
    - injection E as <-. exists s. split; [reflexivity|]. split; [exact R|exists []; rewrite app_nil_r; reflexivity].
    - inversion We as [|? ? We1 We2]; subst.
      destruct (p_step static_text ps o) as [ps1|] eqn:E1; [|discriminate].
      destruct (step_refines _ _ _ _ R We1 E1) as (s1 & B1 & R1 & ext1 & X1).
      rewrite B1. destruct (IH _ _ _ R1 We2 E) as (s' & B' & R' & ext' & X').
      exists s'. split; [exact B'|]. split; [exact R'|]. exists (ext1 ++ ext'). rewrite X', X1, app_assoc. reflexivity.
  Qed.

  Lemma Rel_init c : CacheInv c -> Rel (new_builder c) (p_init).
  Proof. intros CI. unfold Rel, new_builder, p_init. cbn. auto. Qed.

  (* ---- C01: the finished tree is exactly the tree the events denote ---- *)
  Theorem build_faithful c ops t :
    CacheInv c -> Forall (WfEvent static_text) ops -> parse static_text ops = Some t ->
    exists g c', build c ops = Ok (g, c') /\ den (c_strs c') g = t /\ WfG (c_strs c') g /\
                 CacheInv c' /\ exists ext, c_strs c' = c_strs c ++ ext.
  Proof.
    intros CI We P. unfold parse in P.
    destruct (p_run static_text p_init ops) as [[fr base]|] eqn:E; [|discriminate].
    destruct fr as [|? ?]; [|discriminate]. destruct base as [|[|k cs] [|? ?]]; try discriminate.
    injection P as <-.
    destruct (run_refines _ _ _ _ (Rel_init c CI) We E) as (s' & B & (CI' & W & EP & EC) & ext & X).
    unfold Builder.build. rewrite B. cbn [res_bind]. unfold b_finish.
    cbn [fst snd flat] in EC. destruct (b_children s') as [|g [|g2 r2]]; try discriminate.
    cbn [map] in EC. injection EC as EC.
    assert (Nd : is_node g = true). { destruct g; [discriminate|reflexivity]. }
    rewrite Nd. exists g, (b_cache s'). split; [reflexivity|].
    cbn [WfGreens] in W. unfold bstrs in W, EC, X. cbn in X.
    split; [exact EC|]. split; [tauto|]. split; [exact CI'|]. exists ext. exact X.
  Qed.

  (* the text of a parsed tree is the concatenation of the texts fed in *)
  Definition ptext (ps : pstate) : text := flat_map stext (rev (flat (fst ps) (snd ps))).

  Lemma p_step_text ps o ps' :
    WfEvent static_text o -> p_step static_text ps o = Some ps' ->
    ptext ps' = ptext ps ++ fed_text static_text [o].
  Proof.
    intros We E. destruct o as [k|k t|k t|k| | |i k|i]; cbn [p_step] in E; try discriminate; cbn [fed_text].
    - injection E as <-. unfold ptext. cbn. rewrite app_nil_r. reflexivity.
    - injection E as <-. unfold ptext. rewrite flat_push. cbn [rev]. rewrite flat_map_app. cbn [flat_map stext].
      cbn [WfEvent] in We. destruct (static_text k); subst; rewrite !app_nil_r; reflexivity.
    - destruct (static_text k) as [st|]; [|discriminate]. injection E as <-.
      unfold ptext. rewrite flat_push. cbn [rev]. rewrite flat_map_app. cbn. rewrite !app_nil_r. reflexivity.
    - destruct ps as [[|[k cs] fr] base]; [discriminate|]. injection E as <-.
      unfold ptext. rewrite flat_push. cbn [fst snd flat rev]. rewrite rev_app_distr, !flat_map_app.
      cbn [flat_map stext]. rewrite !app_nil_r. reflexivity.
  Qed.

  Lemma p_run_text ops : forall ps ps',
    Forall (WfEvent static_text) ops -> p_run static_text ps ops = Some ps' ->
    ptext ps' = ptext ps ++ fed_text static_text ops.
  Proof.
    induction ops as [|o r IH]; intros ps ps' We E; cbn [p_run] in E.
    - injection E as <-. cbn. rewrite app_nil_r. reflexivity.
    - inversion We as [|? ? We1 We2]; subst.
      destruct (p_step static_text ps o) as [ps1|] eqn:E1; [|discriminate].
      rewrite (IH _ _ We2 E), (p_step_text _ _ _ We1 E1), <- app_assoc. f_equal.
      destruct o; cbn [fed_text]; rewrite ?app_nil_r; try reflexivity.
  Qed.

  Theorem parse_text ops t :
    Forall (WfEvent static_text) ops -> parse static_text ops = Some t -> stext t = fed_text static_text ops.
  Proof.
    intros We P. unfold parse in P.
    destruct (p_run static_text p_init ops) as [[fr base]|] eqn:E; [|discriminate].
    destruct fr as [|? ?]; [|discriminate]. destruct base as [|[|k cs] [|? ?]]; try discriminate.
    injection P as <-.
    pose proof (p_run_text _ _ _ We E) as T. unfold ptext in T. cbn in T. rewrite app_nil_r in T. exact T.
  Qed.

  Theorem build_text c ops t :
    CacheInv c -> Forall (WfEvent static_text) ops -> parse static_text ops = Some t ->
    exists g c', build c ops = Ok (g, c') /\ gtext static_text (c_strs c') g = fed_text static_text ops.
  Proof.
    intros CI We P. destruct (build_faithful c ops t CI We P) as (g & c' & B & D & _).
    exists g, c'. split; [exact B|]. unfold gtext. rewrite D. apply parse_text; assumption.
  Qed.

  (* ---- unbalanced event sequences are not silently accepted ---- *)
  Lemma step_fails s ps o :
    Rel s ps -> WfEvent static_text o -> p_step static_text ps o = None ->
    exists p, fst (b_step s [] o) = Panic p.
  Proof.
    intros (CI & W & EP & EC) We E. destruct o as [k|k t|k t|k| | |i k|i]; cbn [p_step WfEvent] in E, We;
      try discriminate; try contradiction; cbn [Builder.b_step fst].
    - unfold b_static_token. destruct (static_text k); [discriminate|]. eexists; reflexivity.
    - destruct ps as [[|[k cs] fr] base]; [|discriminate]. cbn [fst snd parents_of] in EP.
      unfold Builder.b_finish_node. rewrite EP. eexists; reflexivity.
  Qed.

  Lemma run_fails ops : forall s ps,
    Rel s ps -> Forall (WfEvent static_text) ops -> p_run static_text ps ops = None ->
    exists p, b_run_strict s ops = Panic p.
  Proof.
    induction ops as [|o r IH]; intros s ps R We E; cbn [p_run Builder.b_run_strict] in *; [discriminate|].
    inversion We as [|? ? We1 We2]; subst.
    destruct (p_step static_text ps o) as [ps1|] eqn:E1.
    - destruct (step_refines _ _ _ _ R We1 E1) as (s1 & B1 & R1 & _). rewrite B1. eapply IH; eauto.
    - destruct (step_fails _ _ _ R We1 E1) as (p & B1). rewrite B1. exists p; reflexivity.
  Qed.

  (* Either some event has no meaning (finish_node without an open node, static token of a kind
     without static text), or all nodes are closed but what remains is not exactly one node:
     the builder panics.  (A sequence that ends with nodes still OPEN is outside this theorem:
     finish() does not look at the open-node stack — see DESIGN.md, C01 notes.) *)
  Theorem build_unbalanced c ops :
    CacheInv c -> Forall (WfEvent static_text) ops ->
    (p_run static_text p_init ops = None \/
     exists base, p_run static_text p_init ops = Some ([], base) /\ parse static_text ops = None) ->
    exists p, build c ops = Panic p.
  Proof.
    intros CI We [E|(base & E & P)]; unfold Builder.build.
    - destruct (run_fails _ _ _ (Rel_init c CI) We E) as (p & B). rewrite B. exists p; reflexivity.
    - destruct (run_refines _ _ _ _ (Rel_init c CI) We E) as (s' & B & (CI' & W & EP & EC) & _).
      rewrite B. cbn [res_bind]. unfold b_finish. unfold parse in P. rewrite E in P.
      cbn [fst snd flat] in EC.
      destruct (b_children s') as [|g [|g2 r2]]; [eexists; reflexivity| |eexists; reflexivity].
      destruct base as [|x [|? ?]]; try discriminate. cbn [map] in EC. injection EC as EC.
      destruct g as [id k key l|id k l h cs]; [eexists; reflexivity|].
      cbn [denote] in EC. subst x. discriminate.
  Qed.

  (* ---- C04: sharing is transparent ---- *)
  Theorem cache_transparent c ops t :
    CacheInv c -> Forall (WfEvent static_text) ops -> parse static_text ops = Some t ->
    exists g c' g0 c0, build c ops = Ok (g, c') /\ build empty_cache ops = Ok (g0, c0) /\
      den (c_strs c') g = den (c_strs c0) g0 /\ den (c_strs c') g = t.
  Proof.
    intros CI We P.
    destruct (build_faithful c ops t CI We P) as (g & c' & B & D & _).
    destruct (build_faithful empty_cache ops t CacheInv_empty We P) as (g0 & c0 & B0 & D0 & _).
    exists g, c', g0, c0. rewrite D, D0. auto.
  Qed.

  (* trees built earlier are values: a later build through the same cache only extends the
     interner, under which every earlier tree denotes what it denoted *)
  Theorem earlier_unchanged c ops t g_old :
    CacheInv c -> WfG (c_strs c) g_old ->
    Forall (WfEvent static_text) ops -> parse static_text ops = Some t ->
    exists g c', build c ops = Ok (g, c') /\
      den (c_strs c') g_old = den (c_strs c) g_old /\ WfG (c_strs c') g_old.
  Proof.
    intros CI Wo We P. destruct (build_faithful c ops t CI We P) as (g & c' & B & _ & _ & _ & ext & X).
    exists g, c'. split; [exact B|]. rewrite X. destruct (wf_ext _ ext _ Wo) as [A1 A2]. auto.
  Qed.
End Proofs.
