(* AutoTrait.v — C08: the hand-written thread-safety markers of the tree handles are sound.
   The handle types SyntaxToken, SyntaxElement(Ref), ResolvedNode/Token/Element are structs/enums
   over SyntaxNode and plain data, so Rust derives their Send/Sync from SyntaxNode's; the only
   hand-written claims are `unsafe impl Send/Sync for SyntaxNode<S, D>` (bounds extracted from the
   source on every run).  What a handle makes reachable from another thread:
     - the per-node data, handed out as Arc<D> clones by get_data/set_data  -> needs D: Send + Sync
     - the attached resolver, a type-erased Arc<dyn Resolver>                -> needs R: Send + Sync,
       which only the constructors that store it can demand (their bounds are extracted too)
     - green nodes/tokens (atomically counted, immutable)                    -> always fine
     - the red structure itself (locks, atomics; C05-C07)                    -> modelled separately *)
From CsModel Require Import Base.
From CsModel Require Export Extracted.

(* the thread-safety of a concrete data type D and a concrete resolver type R *)
Record assign := mkAssign { d_send : bool; d_sync : bool; r_send : bool; r_sync : bool }.

Definition sat (ms : list marker) (s y : bool) : bool :=
  forallb (fun m => match m with MSend => s | MSync => y end) ms.

Section Markers.
  Variable send_bounds sync_bounds : list marker.       (* on D, in the two unsafe impls *)
  Variable ctor_bounds : list (list marker).            (* on the resolver argument of each constructor *)

  (* does `SyntaxNode<S, D>: Send` / `: Sync` hold (and with it every handle type)? *)
  Definition is_send (a : assign) : bool := sat send_bounds (d_send a) (d_sync a).
  Definition is_sync (a : assign) : bool := sat sync_bounds (d_send a) (d_sync a).
  (* can a tree with a resolver of this type be constructed at all? *)
  Definition constructible (a : assign) : bool := forallb (fun bs => sat bs (r_send a) (r_sync a)) ctor_bounds.

  (* everything reachable through a handle from another thread is thread-safe *)
  Definition deep (with_resolver : bool) (a : assign) : bool :=
    d_send a && d_sync a && (negb with_resolver || (r_send a && r_sync a)).

  Definition all_assign : list assign :=
    flat_map (fun a => flat_map (fun b => flat_map (fun c => map (fun d => mkAssign a b c d) [true; false]) [true; false]) [true; false]) [true; false].

  Lemma all_assign_complete a : In a all_assign.
  Proof. destruct a as [[|] [|] [|] [|]]; cbn; tauto. Qed.

  Definition sound_at (a : assign) : bool :=
    (* a tree without resolver: the markers alone must imply thread-safe data *)
    implb (is_send a || is_sync a) (deep false a) &&
    (* a tree with a resolver: it exists only if the constructor accepted the resolver type *)
    implb (constructible a && (is_send a || is_sync a)) (deep true a).

  Definition complete_at (a : assign) : bool :=
    implb (d_send a && d_sync a && r_send a && r_sync a) (is_send a && is_sync a && constructible a).

  Theorem markers_sound_of : forallb sound_at all_assign = true ->
    forall a, (is_send a = true \/ is_sync a = true) ->
      deep false a = true /\ (constructible a = true -> deep true a = true).
  Proof.
    intros F a M. rewrite forallb_forall in F. specialize (F a (all_assign_complete a)).
    unfold sound_at in F. apply andb_true_iff in F. destruct F as [F1 F2].
    assert (O : is_send a || is_sync a = true) by (destruct M as [-> | ->]; [reflexivity|apply orb_true_r]).
    rewrite O in F1, F2. cbn in F1. split; [exact F1|]. intros C. rewrite C in F2. exact F2.
  Qed.

  Theorem markers_complete_of : forallb complete_at all_assign = true ->
    forall a, d_send a = true -> d_sync a = true -> r_send a = true -> r_sync a = true ->
      is_send a = true /\ is_sync a = true /\ constructible a = true.
  Proof.
    intros F a A B C D. rewrite forallb_forall in F. specialize (F a (all_assign_complete a)).
    unfold complete_at in F. rewrite A, B, C, D in F. cbn in F. rewrite !andb_true_iff in F. tauto.
  Qed.
End Markers.

(* Borrowed views (SyntaxText = a shared reference to a node + a shared reference to a resolver of type I + a range).
   No hand-written marker exists for them (Extracted.other_marker_impls = 0), so the compiler derives: `&T: Send` iff
   `T: Sync`, `&T: Sync` iff `T: Sync`; hence the view is Send (and Sync) exactly when the node handle is Sync and I is
   Sync. *)
Definition view_ok (sync_bounds : list marker) (a : assign) (i_sync : bool) : bool := is_sync sync_bounds a && i_sync.

Theorem view_sound_of send_bounds sync_bounds ctor_bounds :
  forallb (sound_at send_bounds sync_bounds ctor_bounds) all_assign = true ->
  forall a i_sync, view_ok sync_bounds a i_sync = true -> deep false a = true /\ i_sync = true.
Proof.
  intros F a i V. unfold view_ok in V. apply andb_true_iff in V. destruct V as [V1 V2].
  split; [|exact V2]. apply (markers_sound_of send_bounds sync_bounds ctor_bounds F a). right. exact V1.
Qed.

(* the markers as they were before the fix of F4: no bound on D, none on the resolver *)
Lemma unbounded_markers_refuted :
  exists a, is_send [] a = true /\ constructible [[]; []] a = true /\ deep true a = false /\ deep false a = false.
Proof. exists (mkAssign false false false false). repeat split. Qed.
