(* Race.v — C07: happens-before over traces of synchronisation events.  Two results:
   (A) lock discipline: if every access to a location is made inside a critical section of the
       location's reader/writer lock (a write only in write mode), any two conflicting accesses of
       different threads are ordered by happens-before;
   (B) reference counting: if every update of the tree's counter is a release and the last one an
       acquire, everything a thread did before giving up its handle happens-before the teardown.
   The guarantee of the lock primitive (conflicting critical sections do not overlap) and the C11
   rule for read-modify-writes (every RMW continues the release sequence) are the hypotheses. *)
From Coq Require Import List Arith Lia Bool.
Import ListNotations.

Inductive sev :=
| EAcq (l : nat) (w : bool)       (* lock l acquired in write (true) or read mode *)
| ERel (l : nat) (w : bool)       (* ... released *)
| EAcc (x : nat)                  (* the content of location x is accessed *)
| ERmw (acq rel : bool)           (* read-modify-write on the tree's counter with these orderings *)
| EFree.                          (* the tree's memory is released *)

Definition strace := list (nat * sev).      (* (thread, event); positions are list indices *)

Section Race.
  Variable tr : strace.

  Definition at_ (i : nat) (t : nat) (e : sev) : Prop := nth_error tr i = Some (t, e).

  (* synchronises-with and program order, then happens-before as their transitive closure *)
  Inductive step_hb : nat -> nat -> Prop :=
  | hb_po i j t e1 e2 : i < j -> at_ i t e1 -> at_ j t e2 -> step_hb i j
  | hb_lock i j t1 t2 l w1 w2 : i < j -> at_ i t1 (ERel l w1) -> at_ j t2 (EAcq l w2) -> w1 || w2 = true -> step_hb i j
  | hb_rmw i j t1 t2 a1 r2 : i < j -> at_ i t1 (ERmw a1 true) -> at_ j t2 (ERmw true r2) -> step_hb i j.

  Inductive hb : nat -> nat -> Prop :=
  | hb_one i j : step_hb i j -> hb i j
  | hb_trans i j k : hb i j -> hb j k -> hb i k.

  Lemma hb_lt i j : hb i j -> i < j.
  Proof. induction 1 as [i j S|i j k _ IH1 _ IH2]; [destruct S; assumption|lia]. Qed.

  (* ---- (A) locks ---- *)
  (* thread t is inside a critical section of l in mode w at position i: it acquired at a < i and
     has not released in between *)
  Definition inside (t l : nat) (w : bool) (a i : nat) : Prop :=
    a < i /\ at_ a t (EAcq l w) /\ forall r w', a < r -> r < i -> ~ at_ r t (ERel l w').

  (* what the lock primitive guarantees: a conflicting acquire succeeds only after the earlier
     holder has released (in the mode it held) *)
  Definition LockExclusion : Prop :=
    forall a1 a2 t1 t2 l w1 w2,
      a1 < a2 -> t1 <> t2 -> at_ a1 t1 (EAcq l w1) -> at_ a2 t2 (EAcq l w2) -> w1 || w2 = true ->
      exists r1, a1 < r1 /\ r1 < a2 /\ at_ r1 t1 (ERel l w1).

  Variable lock_of : nat -> nat.       (* the lock that protects a location *)

  Theorem lock_discipline_orders i j t1 t2 x w1 w2 a1 a2 :
    LockExclusion ->
    i < j -> t1 <> t2 ->
    at_ i t1 (EAcc x) -> at_ j t2 (EAcc x) ->
    inside t1 (lock_of x) w1 a1 i -> inside t2 (lock_of x) w2 a2 j ->
    w1 || w2 = true ->                  (* the accesses conflict: at least one may write *)
    hb i j.
  Proof.
    intros LX Hij Ht Ai Aj (Ha1 & Q1 & N1) (Ha2 & Q2 & N2) W.
    assert (Hne : a1 <> a2).
    { intros ->. unfold at_ in Q1, Q2. rewrite Q1 in Q2. injection Q2 as E _. contradiction. }
    destruct (Nat.lt_ge_cases a1 a2) as [L|L].
    - (* t1's section comes first: it is released before t2 gets in, and after the access *)
      destruct (LX a1 a2 t1 t2 _ w1 w2 L Ht Q1 Q2 W) as (r1 & R1 & R2 & R3).
      assert (i < r1).
      { destruct (Nat.lt_ge_cases i r1) as [|G]; [assumption|]. exfalso.
        destruct (Nat.eq_dec r1 i) as [->|Hd].
        - unfold at_ in R3, Ai. rewrite Ai in R3. discriminate.
        - apply (N1 r1 w1); [exact R1|lia|exact R3]. }
      eapply hb_trans; [apply hb_one; eapply hb_po; [|exact Ai|exact R3]; assumption|].
      eapply hb_trans; [apply hb_one; eapply hb_lock; [|exact R3|exact Q2|exact W]; assumption|].
      apply hb_one. eapply hb_po; [|exact Q2|exact Aj]. assumption.
    - (* t2's section would have started first and still be open at j > i > a1: impossible *)
      exfalso. assert (L2 : a2 < a1) by lia.
      assert (W' : w2 || w1 = true) by (rewrite orb_comm; exact W).
      destruct (LX a2 a1 t2 t1 _ w2 w1 L2 (not_eq_sym Ht) Q2 Q1 W') as (r2 & R1 & R2 & R3).
      apply (N2 r2 w2); [exact R1|lia|exact R3].
  Qed.

  (* ---- (B) the reference count ---- *)
  (* i: something thread t did with the tree; d: the decrement with which t later gave up its
     handle (a release); f: the last decrement, which read 1 (an acquire); z: the teardown that the
     thread of f performs afterwards *)
  Theorem teardown_after_uses i d f z t tf e a r :
    i < d -> d <= f -> f < z ->
    at_ i t e -> at_ d t (ERmw a true) -> at_ f tf (ERmw true r) -> at_ z tf EFree ->
    hb i z.
  Proof.
    intros Hid Hdf Hfz Ai Ad Af Az.
    destruct (Nat.eq_dec d f) as [->|Hne].
    - (* the thread's own decrement is the last one *)
      unfold at_ in Ad, Af. rewrite Ad in Af. injection Af as -> _ _.
      apply hb_one. eapply hb_po; [|exact Ai|exact Az]. lia.
    - eapply hb_trans; [apply hb_one; eapply hb_po; [|exact Ai|exact Ad]; assumption|].
      eapply hb_trans; [apply hb_one; eapply hb_rmw; [|exact Ad|exact Af]; lia|].
      apply hb_one. eapply hb_po; [|exact Af|exact Az]. assumption.
  Qed.

  (* with a counter update weaker than a release (or a final one weaker than an acquire) the chain
     of (B) is not available: the only edges into a thread other than t are lock and RMW edges *)
End Race.

(* the orderings of C11 as far as this development needs them *)
Inductive ordering := Relaxed | Acquire | Release | AcqRel | SeqCst.
Definition is_acq (o : ordering) : bool := match o with Acquire | AcqRel | SeqCst => true | _ => false end.
Definition is_rel (o : ordering) : bool := match o with Release | AcqRel | SeqCst => true | _ => false end.
Definition rmw_of (o : ordering) : sev := ERmw (is_acq o) (is_rel o).

(* every counter update in the source must be both, because any decrement may be the last one and
   any earlier update must be visible to it *)
Definition orderings_ok (l : list ordering) : bool := forallb (fun o => is_acq o && is_rel o) l.

Lemma orderings_ok_spec l o : orderings_ok l = true -> In o l -> rmw_of o = ERmw true true.
Proof.
  unfold orderings_ok. rewrite forallb_forall. intros F Hin. specialize (F o Hin).
  apply andb_true_iff in F as [A R]. unfold rmw_of. rewrite A, R. reflexivity.
Qed.
