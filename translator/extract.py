#!/usr/bin/env python3
"""translator/extract.py — re-reads /repo's sources and regenerates coq/Extracted.v.

A deliberately small pattern extractor (not a Rust front end).  Every fact is a Coq Definition of a
finite datum and belongs to one property.  If a pattern is not found the fact keeps the value the
proofs were written for, and `facts_found_<property>` becomes `false`: the theorem
`<property>_facts_extracted : facts_found_<property> = true` of that property (and only of that
property) then fails to check — never a silent default, and no alarm in the neighbours."""
import re, sys, os, hashlib

REPO = sys.argv[1] if len(sys.argv) > 1 else "/repo"
OUT = sys.argv[2] if len(sys.argv) > 2 else os.path.join(os.path.dirname(__file__), "..", "coq", "Extracted.v")

def src(rel):
    with open(os.path.join(REPO, rel), encoding="utf-8") as f:
        return f.read()

facts = []      # (name, type, value-or-None, comment)

# owner property and the value the proofs were written for
OWNER = {
    "cache_threshold": ("C04", "3%nat"),
    "abbrev_len": ("C19", "25"), "abbrev_lo": ("C19", "21"), "abbrev_hi": ("C19", "25"),
    "serde_token_text_ty": ("C16", "FCowStr"),
    "node_send_bounds": ("C08", "[MSend; MSync]"), "node_sync_bounds": ("C08", "[MSend; MSync]"),
    "ctor_resolver_bounds": ("C08", "[[MSend; MSync]; [MSend; MSync]]"),
    "green_token_unconditional": ("C08", "true"),
    "other_marker_impls": ("C08", "0%nat"),
    "node_kind_bounds": ("C08", "[]"),
    "rc_orderings": ("C07", "[OAcqRel; OAcqRel; OAcqRel; OAcqRel]"),
    "rc_exclusive_refs": ("C07", "0%nat"),
    "slot_exclusive_refs_outside_teardown": ("C07", "0%nat"),
}

def fact(name, ty, val, comment):
    facts.append((name, ty, val, comment))

def main():
    builder = src("cstree/src/green/builder.rs")
    m = re.search(r"const\s+CHILDREN_CACHE_THRESHOLD\s*:\s*usize\s*=\s*(\d+)\s*;", builder)
    fact("cache_threshold", "nat", (m.group(1) + "%nat") if m else None,
         "green/builder.rs CHILDREN_CACHE_THRESHOLD")

    token = src("cstree/src/syntax/token.rs")
    m = re.search(r"if\s+\w+\.len\(\)\s*<\s*(\d+)\s*\{", token)
    fact("abbrev_len", "N", m.group(1) if m else None, "syntax/token.rs write_debug: texts shorter than this are printed in full")
    # the candidate cut positions: `for idx in A..B { if text.is_char_boundary(idx) ...` or `(A..B).find(|..| text.is_char_boundary(..))`,
    # where A and B are integer literals, constants of the file, or constant + literal
    consts = dict(re.findall(r"const\s+(\w+)\s*:\s*usize\s*=\s*(\d+)\s*;", token))
    def bound(e):
        e = e.strip()
        mm = re.fullmatch(r"(\w+)(?:\s*\+\s*(\d+))?", e)
        if not mm:
            return None
        base = mm.group(1)
        v = int(base) if base.isdigit() else (int(consts[base]) if base in consts else None)
        return None if v is None else str(v + int(mm.group(2) or 0))
    m = (re.search(r"for\s+\w+\s+in\s+([\w +]+?)\.\.([\w +]+?)\s*\{\s*if\s+\w+\.is_char_boundary\(", token) or
         re.search(r"\(\s*([\w +]+?)\.\.([\w +]+?)\s*\)\s*\.find\(\s*\|[^|]*\|\s*\w+\.is_char_boundary\(", token))
    fact("abbrev_lo", "N", bound(m.group(1)) if m else None, "syntax/token.rs write_debug: first candidate cut position")
    fact("abbrev_hi", "N", bound(m.group(2)) if m else None, "syntax/token.rs write_debug: end (exclusive) of the candidate cut positions")

    serde = src("cstree/src/serde_impls.rs")
    ty = None
    m = re.search(r"enum\s+Event\b", serde)
    if m:
        body = serde[m.end():]
        t = re.search(r"\bToken\s*\(", body)
        if t:
            depth, i = 1, t.end()
            while i < len(body) and depth:
                depth += body[i] in "(<["
                depth -= body[i] in ")>]"
                i += 1
            args = body[t.end():i - 1]
            args = re.sub(r"#\[[^\]]*\]", "", args)                # attributes such as #[serde(borrow)]
            f = args.split(",", 1)[1].strip() if "," in args else ""
            f = re.sub(r"\s+", " ", f)
            if re.match(r"& ?'\w+ str$", f):
                ty = "FBorrowedStr"
            elif re.match(r"(std::borrow::)?Cow ?< ?'\w+ ?, ?str ?>$", f) or f == "String":
                ty = "FCowStr"
    facts.append(("serde_token_text_ty", "field_ty", ty, "serde_impls.rs enum Event: type of the text field of the Token event"))

    # ---- C08: the hand-written thread-safety markers and the bounds of the constructors that store a resolver
    node = src("cstree/src/syntax/node.rs")
    resolved = src("cstree/src/syntax/resolved.rs")

    def markers(bounds):
        return "[" + "; ".join(m for m in ("MSend", "MSync") if re.search(r"\b%s\b" % m[1:], bounds)) + "]"

    kind_bounds = []
    for tr in ("Send", "Sync"):
        m = re.search(r"unsafe\s+impl\s*<\s*S\s*:\s*Syntax([^,>]*),\s*D\s*:\s*([^>]*)>\s*%s\s+for\s+SyntaxNode\s*<\s*S\s*,\s*D\s*>\s*(where[^{]*)?\{" % tr, node)
        val = None
        if m:
            # (bounds on D may also be written in a where clause; bounds on S are collected separately below)
            wh = m.group(3) or ""
            val = markers(m.group(2) + " " + " ".join(re.findall(r"\bD\s*:\s*([^,{]*)", wh)))
            kind_bounds.append(markers(m.group(1) + " " + " ".join(re.findall(r"\bS\s*:\s*([^,{]*)", wh))))
        facts.append(("node_%s_bounds" % tr.lower(), "list marker", val,
                      "syntax/node.rs: bounds on the data parameter D in `unsafe impl %s for SyntaxNode<S, D>`" % tr))
    # the syntax-kind parameter S is a type-level tag (no value of S is stored in a tree): no marker bound may be put on it
    kb = None
    if len(kind_bounds) == 2:
        both = sorted(set(re.findall(r"MSend|MSync", " ".join(kind_bounds))))
        kb = "[" + "; ".join(both) + "]"
    facts.append(("node_kind_bounds", "list marker", kb,
                  "syntax/node.rs: marker bounds on the syntax-kind parameter S in the two `unsafe impl ... for SyntaxNode<S, D>`"))
    ctors = []
    for text in (node, resolved):
        for m in re.finditer(r"fn\s+new_root_with_resolver\s*\(([^)]*)\)", text):
            r = re.search(r"resolver\s*:\s*impl\s+([^,)]*)", m.group(1))
            ctors.append(markers(r.group(1)) if r else None)
    facts.append(("ctor_resolver_bounds", "list (list marker)",
                  None if (not ctors or None in ctors) else "[" + "; ".join(ctors) + "]",
                  "node.rs / resolved.rs: marker bounds on the `resolver` argument of every new_root_with_resolver"))
    green_tok = src("cstree/src/green/token.rs")
    facts.append(("green_token_unconditional", "bool",
                  "true" if (re.search(r"unsafe\s+impl\s+Send\s+for\s+GreenToken\s*\{\s*\}", green_tok) and
                             re.search(r"unsafe\s+impl\s+Sync\s+for\s+GreenToken\s*\{\s*\}", green_tok)) else "false",
                  "green/token.rs: `unsafe impl Send/Sync for GreenToken {}` without conditions"))

    # every other type gets its Send / Sync from the compiler: no further hand-written marker anywhere in the library
    known = {"SyntaxNode", "GreenToken", "PackedGreenElement"}
    others = 0
    for root, _dirs, files in os.walk(os.path.join(REPO, "cstree", "src")):
        for fn in files:
            if not fn.endswith(".rs") or fn == "verif.rs":
                continue
            text = open(os.path.join(root, fn), encoding="utf-8").read()
            for m in re.finditer(r"unsafe\s+impl\b[^{;]*?\b(Send|Sync)\s+for\s+([A-Za-z_][A-Za-z0-9_]*)", text):
                if m.group(2) not in known:
                    others += 1
    facts.append(("other_marker_impls", "nat", "%d%%nat" % others,
                  "cstree/src/**: number of `unsafe impl Send/Sync` for types other than SyntaxNode, GreenToken, PackedGreenElement"))

    # ---- C07: how the shared counter and the child slots are touched
    order_map = {"Relaxed": "ORelaxed", "Acquire": "OAcquire", "Release": "ORelease", "AcqRel": "OAcqRel", "SeqCst": "OSeqCst"}
    ords = re.findall(r"\.fetch_(?:add|sub)\(\s*\d+\s*,\s*Ordering::(\w+)\s*\)", node)
    facts.append(("rc_orderings", "list ordering_name",
                  ("[" + "; ".join(order_map[o] for o in ords) + "]") if ords and all(o in order_map for o in ords) else None,
                  "syntax/node.rs: memory ordering of every fetch_add / fetch_sub on the tree's reference count, in source order"))
    facts.append(("rc_exclusive_refs", "nat", "%d%%nat" % len(re.findall(r"&mut\s*\*\s*[\w.()]*ref_count", node)),
                  "syntax/node.rs: number of places that form `&mut` to the shared reference count"))
    # `&mut *` over a child slot is only sound where no other thread can hold a reference into the slot: the teardown
    body_wo_teardown = re.sub(r"fn\s+drop_recursive\b.*?\n    \}\n", "", node, flags=re.S)
    facts.append(("slot_exclusive_refs_outside_teardown", "nat",
                  "%d%%nat" % len(re.findall(r"&mut\s*\*\s*[\w.()]*children\s*\.get_unchecked\([^)]*\)\s*\.get\(\)", body_wo_teardown)),
                  "syntax/node.rs: number of places outside drop_recursive that form `&mut` to the content of a child slot"))

    out = ["(* Extracted.v — GENERATED by translator/extract.py from /repo on every run. Do not edit. *)",
           "From Coq Require Import List NArith.", "Import ListNotations.", "Open Scope N_scope.", "",
           "(* how the text field of the serialized token event is typed *)",
           "Inductive field_ty := FBorrowedStr | FCowStr.", "",
           "(* auto-trait markers a bound can mention *)",
           "Inductive marker := MSend | MSync.", "",
           "(* memory orderings as written in the source *)",
           "Inductive ordering_name := ORelaxed | OAcquire | ORelease | OAcqRel | OSeqCst.", ""]
    missing = {}
    for name, ty, val, comment in facts:
        owner, default = OWNER[name]
        missing.setdefault(owner, [])
        out.append("(* %s *)" % comment)
        if val is None:
            missing[owner].append(name)
            out.append("(* NOT FOUND in the current source: the value the proofs were written for is kept, and facts_found_%s is false *)" % owner)
            out.append("Definition %s : %s := %s." % (name, ty, default))
        else:
            out.append("Definition %s : %s := %s." % (name, ty, val))
        out.append("")
    for owner in sorted(missing):
        out.append("(* were all facts of %s found?%s *)" % (owner, (" missing: " + ", ".join(missing[owner])) if missing[owner] else ""))
        out.append("Definition facts_found_%s : bool := %s." % (owner, "false" if missing[owner] else "true"))
        out.append("")
    text = "\n".join(out)
    old = None
    if os.path.exists(OUT):
        with open(OUT) as f:
            old = f.read()
    if old != text:
        with open(OUT, "w") as f:
            f.write(text)
    print("Extracted.v: %d facts, sha %s%s" % (len(facts), hashlib.sha256(text.encode()).hexdigest()[:12],
                                               "" if old == text else " (updated)"))

main()
